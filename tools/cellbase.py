#!/usr/bin/env python3
"""tools/cellbase.py [seeds...]: record which coverage cells every quick run of a check exercises (minimum count over the given seeds
>= 10) in vlib/needed_cells.json.  A later run that misses one of them is inconclusive, not "held": an input class that silently
stopped being generated must not pass unnoticed."""
import json, os, subprocess, sys, tempfile, shutil

seeds = sys.argv[1:] or ["0", "1", "2", "3", "4"]
props = [f"C{i:02d}" for i in range(1, 21)]
out = {}
for p in props:
    mins = None
    for s in seeds:
        d = tempfile.mkdtemp(prefix="cellbase.", dir="/dev/shm")
        e = dict(os.environ, VERIF_SEED=s, VERIF_EVIDENCE_DIR=d, VERIF_NO_NEEDED_CELLS="1")
        r = subprocess.run(["/verif/check", p, "--tier", "quick"], env=e, stdout=subprocess.PIPE, stderr=subprocess.STDOUT, text=True, errors="replace")
        try:
            cells = json.load(open(f"{d}/{p}.json"))["coverage"]["cells"]
        finally:
            shutil.rmtree(d, ignore_errors=True)
        if r.returncode != 0:
            print(p, "seed", s, "rc", r.returncode, "- not used")
            continue
        mins = dict(cells) if mins is None else {k: min(v, cells.get(k, 0)) for k, v in mins.items()}
    keep = sorted(k for k, v in (mins or {}).items() if v >= 10)
    out[p] = keep
    print(p, len(keep), "cells")
json.dump(out, open("/verif/vlib/needed_cells.json", "w"), indent=0, sort_keys=True)
