#!/usr/bin/env python3-vt
"""Validate MANIFEST.json and evidence/*.json against the schemas in /root/.vp (run with python3-vt: jsonschema lives there)."""
import glob, json, sys
import jsonschema

bad = 0
m = json.load(open("/verif/MANIFEST.json"))
try:
    jsonschema.validate(m, json.load(open("/root/.vp/MANIFEST.schema.json")))
    print("MANIFEST ok:", len(m["checks"]), "checks,", len(m.get("not_applicable", [])), "not applicable")
except jsonschema.ValidationError as e:
    bad += 1
    print("MANIFEST INVALID:", e.message[:300])
es = json.load(open("/root/.vp/EVIDENCE.schema.json"))
for f in sorted(glob.glob("/verif/evidence/C*.json")) + sorted(glob.glob("/verif/evidence/thorough/C*.json")):
    try:
        d = json.load(open(f))
        jsonschema.validate(d, es)
        print(f.replace("/verif/", ""), "ok", d["tier"], "seed", d["seed"], "evaluations", d["coverage"].get("evaluations"), "distinct", d["coverage"].get("distinct_nontrivial"),
              "violations", d.get("violations"))
    except Exception as e:  # noqa
        bad += 1
        print(f, "INVALID:", str(e)[:300])
sys.exit(1 if bad else 0)
