#!/usr/bin/env python3
"""Run the repository's pinned test command (guard off) and compare with BASELINE.json stable_pass."""
import json, os, subprocess, sys, tempfile, xml.etree.ElementTree as ET

base = json.load(open("/root/.vp/BASELINE.json"))
stable = set(base["stable_pass"])
fd, xml = tempfile.mkstemp(suffix=".xml"); os.close(fd)
env = dict(os.environ); env.pop("REUSE_VERIF", None)
cmd = base["cmd"].replace("<file>", xml)
if len(sys.argv) > 1:  # another checkout (scratch worktree): same command there, importing that tree
    d = os.path.abspath(sys.argv[1])
    cmd = cmd.replace("cd /repo", f"cd {d}")
    env["PYTHONPATH"] = os.path.join(d, "src")
p = subprocess.run(cmd, shell=True, env=env, stdout=subprocess.PIPE, stderr=subprocess.STDOUT)
passed = set()
for tc in ET.parse(xml).getroot().iter("testcase"):
    if not any(ch.tag in ("failure", "error", "skipped") for ch in tc):
        passed.add(f"{tc.get('classname')}::{tc.get('name')}")
os.unlink(xml)
missing = sorted(stable - passed)
print(f"stable_pass={len(stable)} passed_now={len(passed)} missing_from_stable={len(missing)}")
for m in missing[:40]:
    print("  NOT PASSING:", m)
sys.exit(1 if missing else 0)
