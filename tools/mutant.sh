#!/bin/sh
# usage: tools/mutant.sh <patch-file|-e 'sed-expr' file> <Cxx> [tier]
# Copies /repo to scratch, applies the change, runs the check against the copy (evidence redirected), removes the copy.
set -u
PATCH="$(realpath "$1")"; PROP="$2"; TIER="${3:-quick}"
D=$(mktemp -d /dev/shm/mutant.XXXXXX)
cp -r /repo/src "$D/src"
( cd "$D" && patch -s -p1 < "$PATCH" ) || { echo "PATCH FAILED"; rm -rf "$D"; exit 9; }
VERIF_REPO="$D" VERIF_EVIDENCE_DIR="$D/evidence" /verif/check "$PROP" --tier "$TIER" | cut -c1-600
RC=$?
rm -rf "$D"
exit $RC
