#!/bin/sh
# usage: tools/sweep.sh <tier> <seeds...>   (evidence redirected; prints only non-HELD outcomes)
TIER="$1"; shift
OUT=$(mktemp -d /dev/shm/sweep.XXXXXX)
for S in "$@"; do
  for P in C01 C02 C03 C04 C05 C06 C07 C08 C09 C10 C11 C12 C13 C14 C15 C16 C17 C18 C19 C20; do
    VERIF_SEED=$S VERIF_EVIDENCE_DIR="$OUT/ev-$S" ./check $P --tier "$TIER" > "$OUT/$P-$S.log" 2>&1
    RC=$?
    L=$(grep -v '^KNOWN' "$OUT/$P-$S.log" | tail -1 | cut -c1-300)
    echo "seed=$S $P rc=$RC $(head -1 "$OUT/$P-$S.log" | sed 's/.*wall=/wall=/' | cut -d' ' -f1) :: $L"
    if [ $RC -ne 0 ]; then grep "witness key" "$OUT/$P-$S.log" | cut -c1-400; fi
  done
done
rm -rf "$OUT"
