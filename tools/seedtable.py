#!/usr/bin/env python3
"""Print the DESIGN.md table of seeded changes from /verif/seeded/*/meta.json."""
import glob, json, os
STRENGTHENED = {
 "C01-1": "C01 gained Git trees with ignored files next to covered ones in untracked directories (C03 caught it from the start)",
 "C01-2": "C01 gained nested closest REUSE.toml files splitting copyright / licence (C04 caught it from the start)",
 "C01-3": "C01 gained big files with a snippet marker across 4 KiB / 64 KiB buffer boundaries",
 "C01-4": "C01 gained dep5 paragraphs whose synopsis is no SPDX expression (file must be named in some category)",
 "C02-2": "C02 gained snippet markers straddling buffer boundaries",
 "C02-4": "C02's stacked-terminator class gained blank-separated stacks",
 "C03-2": "C03 gained submodules and ignored clones below subprojects/",
 "C03-3": "C03 gained `annotate -r` on named (also excluded) directories",
 "C03-4": "C03 gained lint-file from a sub directory with relative arguments",
 "C04-3": "C04 gained `--root .`, cell directories sorting before '.', and a root-level REUSE.toml in the chain",
 "C04-4": "C04 gained the read-open log: files under an override must not be opened",
 "C05-3": "C05 gained multi-glob annotations",
 "C05-4": "C05 gained the REUSE.toml text route (from_toml) next to the constructor",
 "C06-3": "C06 gained the 'absorbed' use (A and (A OR X) in one file)",
 "C06-4": "C06 gained provided LicenseRef- used with '+', also under dep5; dotted SPDX ids forced into every 4th tree",
 "C07-3": "C07 gained long CR-only bodies (C02 gained tags at the top of long files)",
 "C07-4": "C07 gained prior headers with a contributor that must survive",
 "C08-2": "C08 gained FF / VT / FS-GS-RS / NEL / U+2028 / U+2029 inside lines",
 "C09-1": "C09 gained hand-written headers with compact year ranges and checks every holder after a merge",
 "C10-1": "C10 gained one-kind-only requests with non-SPDX prefixes",
 "C10-2": "C10 gained contributors with every kind of ending",
 "C11-2": "C11/C07 gained lossy pre-commented templates",
 "C14-1": "C14 gained files sharing one closest annotation, some with half a header",
 "C15-2": "C15 gained download --source onto existing targets (also symlinks) and an attempt-safe reading of the event log",
 "C16-1": "C16 gained a catalogue of structurally invalid TOML (duplicate keys / tables, dotted-key conflicts, ...)",
 "C16-2": "C16 gained extension-less, named-style and hidden victim file names",
 "C17-1": "C17 gained paragraphs repeating the information of an earlier one (A, B, A')",
 "C18-1": "C18 gained files with equal identifiers but different structure",
 "C18-2": "C18 gained byte-identical files with one base name in different directories",
 "C20-2": "C20 passes --year options in any order",
 "C01-5": "C01 gained Meson subprojects carrying their own REUSE.toml, linted with --include-meson-subprojects",
 "C01-6": "C01 gained files and .license siblings with an unparseable expression (lint must exit 1 and list the file)",
 "C02-5": "C02 gained non-ASCII tag values straddling the 4 KiB boundary of files with a snippet marker",
 "C02-6": "C02 gained identifiers spelled in another case than the SPDX list (values are read back as authored)",
 "C03-5": "C03 gained submodules whose names contain blanks",
 "C04-6": "C04 gained a REUSE.toml chain running through a Meson subproject, each include option on its own",
 "C05-6": "C05 gained multi-glob annotations with two globstars in one glob next to overlapping short globs",
 "C06-5": "C06 gained LicenseRef- texts without file extension",
 "C07-5": "C07 gained multi-file and --recursive invocations over files that already have a .license sibling",
 "C07-6": "C07 gained multi-file invocations where an earlier file already has notices of its own (nothing may leak to later files)",
 "C08-3": "C08 gained bodies repeating the first-line declaration of their style",
 "C08-4": "C08 gained existing multi-line headers whose closing line carries trailing text or blanks",
 "C08-6": "C08 gained CRLF / CR files whose first line is longer than 4 KiB",
 "C09-5": "C09 gained hand-written headers in multi-line styles with notices touching the delimiters",
 "C10-4": "C10 gained two-year requests repeated with --merge-copyrights",
 "C10-5": "C10 gained a template with a tag of its own (fixedtag)",
 "C10-6": "C10 gained requests with 75-95 holders (headers beyond 4 KiB)",
 "C11-4": "C11 gained --style together with --single-line / --multi-line on recognised extensions",
 "C12-3": "C12 gained big files with a snippet marker and an ignore block sliding across every buffer boundary",
 "C12-5": "C12 gained an unparseable expression outside the ignore block (outcomes, errors included, are compared)",
 "C13-5": "C13 gained --include-meson-subprojects with defective files below subprojects/",
 "C14-4": "C14 gained submodules, with runs started from other working directories",
 "C14-5": "C14 gained LICENSES/ texts reachable under two paths (a link inside LICENSES/)",
 "C15-3": "C15 gained siblings whose names start like the directory named to annotate -r",
 "C15-4": "C15 gained runs from working directories other than the project root",
 "C15-5": "C15 gained projects that are a subdirectory of a larger Git work tree",
 "C16-4": "C16 gained the touch-count failpoint: the victim vanishes after the K-th time the tool looks at it, K enumerated",
 "C16-5": "C16 gained well-formed configurations whose values are strings of glob / regex metacharacters",
 "C16-6": "C16 gained dep5 together with a REUSE.toml that only exists in a subdirectory",
 "C17-4": "C17 gained a write fault at flush time (/dev/full behind REUSE.toml): dep5 must survive a failed conversion",
 "C19-4": "C19 gained --all in projects using deprecated and unknown identifiers",
 "C20-5": "C20 gained histories of plain runs (and hand-written headers) followed by a merging run that repeats a year already there",
 "C20-6": "C20 gained annotate --template with the holder grammar",
}
print("| id | change (by a sub-agent that saw only the property text) | needs | caught by | note |")
print("|---|---|---|---|---|")
for d in sorted(glob.glob("/verif/seeded/C*-*"), key=lambda x: (x.split("/")[-1].split("-")[0], int(x.split("-")[-1]))):
    m = json.load(open(d + "/meta.json"))
    sid = os.path.basename(d)
    summ = (m.get("summary") or "").replace("\n", " ").replace("|", "\\|")
    need = (m.get("needs_to_manifest") or "").replace("\n", " ").replace("|", "\\|")
    by = ", ".join(m.get("detected_by") or []) or "**missed**"
    note = STRENGTHENED.get(sid, "caught on first exposure")
    print(f"| {sid} | {summ[:230]} | {need[:150]} | {by} | {note} |")
