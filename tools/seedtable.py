#!/usr/bin/env python3
"""Print the DESIGN.md table of seeded changes from /verif/seeded/*/meta.json."""
import glob, json, os
STRENGTHENED = {
 "C01-1": "C01 gained Git trees with ignored files next to covered ones in untracked directories (C03 caught it from the start)",
 "C01-2": "C01 gained nested closest REUSE.toml files splitting copyright / licence (C04 caught it from the start)",
 "C01-3": "C01 gained big files with a snippet marker across 4 KiB / 64 KiB buffer boundaries",
 "C01-4": "C01 gained dep5 paragraphs whose synopsis is no SPDX expression (file must be named in some category)",
 "C02-2": "C02 gained snippet markers straddling buffer boundaries",
 "C02-4": "C02's stacked-terminator class gained blank-separated stacks",
 "C03-2": "C03 gained submodules and ignored clones below subprojects/",
 "C03-3": "C03 gained `annotate -r` on named (also excluded) directories",
 "C03-4": "C03 gained lint-file from a sub directory with relative arguments",
 "C04-3": "C04 gained `--root .`, cell directories sorting before '.', and a root-level REUSE.toml in the chain",
 "C04-4": "C04 gained the read-open log: files under an override must not be opened",
 "C05-3": "C05 gained multi-glob annotations",
 "C05-4": "C05 gained the REUSE.toml text route (from_toml) next to the constructor",
 "C06-3": "C06 gained the 'absorbed' use (A and (A OR X) in one file)",
 "C06-4": "C06 gained provided LicenseRef- used with '+', also under dep5; dotted SPDX ids forced into every 4th tree",
 "C07-3": "C07 gained long CR-only bodies (C02 gained tags at the top of long files)",
 "C07-4": "C07 gained prior headers with a contributor that must survive",
 "C08-2": "C08 gained FF / VT / FS-GS-RS / NEL / U+2028 / U+2029 inside lines",
 "C09-1": "C09 gained hand-written headers with compact year ranges and checks every holder after a merge",
 "C10-1": "C10 gained one-kind-only requests with non-SPDX prefixes",
 "C10-2": "C10 gained contributors with every kind of ending",
 "C11-2": "C11/C07 gained lossy pre-commented templates",
 "C14-1": "C14 gained files sharing one closest annotation, some with half a header",
 "C15-2": "C15 gained download --source onto existing targets (also symlinks) and an attempt-safe reading of the event log",
 "C16-1": "C16 gained a catalogue of structurally invalid TOML (duplicate keys / tables, dotted-key conflicts, ...)",
 "C16-2": "C16 gained extension-less, named-style and hidden victim file names",
 "C17-1": "C17 gained paragraphs repeating the information of an earlier one (A, B, A')",
 "C18-1": "C18 gained files with equal identifiers but different structure",
 "C18-2": "C18 gained byte-identical files with one base name in different directories",
 "C20-2": "C20 passes --year options in any order",
}
print("| id | change (by a sub-agent that saw only the property text) | needs | caught by | note |")
print("|---|---|---|---|---|")
for d in sorted(glob.glob("/verif/seeded/C*-*"), key=lambda x: (x.split("/")[-1].split("-")[0], int(x.split("-")[-1]))):
    m = json.load(open(d + "/meta.json"))
    sid = os.path.basename(d)
    summ = (m.get("summary") or "").replace("\n", " ").replace("|", "\\|")
    need = (m.get("needs_to_manifest") or "").replace("\n", " ").replace("|", "\\|")
    by = ", ".join(m.get("detected_by") or []) or "**missed**"
    note = STRENGTHENED.get(sid, "caught on first exposure")
    print(f"| {sid} | {summ[:230]} | {need[:150]} | {by} | {note} |")
