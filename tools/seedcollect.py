#!/usr/bin/env python3
"""tools/seedcollect.py Cxx [extra checks...]: run seedeval and store confirmed changes under /verif/seeded/Cxx-N/."""
import json, os, shutil, subprocess, sys
pid = sys.argv[1]
wt = f"/tmp/wt-{pid}"
r = subprocess.run(["python3", "/verif/tools/seedeval.py", pid, "quick"] + sys.argv[2:], stdout=subprocess.PIPE, text=True)
res = json.loads(r.stdout)
meta = {"changes": []}
for mf in ("meta.json", "meta2.json", "meta3.json", "meta4.json", "meta5.json", "meta6.json", "meta7.json", "meta8.json", "meta9.json"):
    try:
        meta["changes"] += json.load(open(f"{wt}/{mf}")).get("changes", [])
    except Exception:
        pass
for n, ev in res.items():
    ok_demo = ev.get("demo_clean") == 0 and ev.get("demo_patched", 0) != 0
    ok_suite = bool(ev.get("suite")) and "missing_from_stable=0" in ev["suite"][0]
    d = f"/verif/seeded/{pid}-{n}"
    if not (ok_demo and ok_suite):
        print(pid, n, "NOT CONFIRMED", ev.get("demo_clean"), ev.get("demo_patched"), ev.get("suite", [""])[0])
        continue
    os.makedirs(d, exist_ok=True)
    try:
        if "rebased" in json.load(open(f"{d}/meta.json")):
            print(pid, n, "kept (rebased by hand)")
            continue
    except Exception:
        pass
    shutil.copy(f"{wt}/patch{n}.diff", f"{d}/patch.diff")
    shutil.copy(f"{wt}/demo{n}.py", f"{d}/demo.py")
    ch = next((c for c in meta.get("changes", []) if f"patch{n}." in c.get("patch", "")), {})
    detected_by = [pid] if ev.get("check_rc") == 1 else []
    for k, v in ev.items():
        if k.startswith("check_") and k.endswith("_rc") and k != "check_rc" and v == 1:
            detected_by.append(k.split("_")[1])
    json.dump({
        "property": pid,
        "summary": ch.get("summary"),
        "needs_to_manifest": ch.get("needs_to_manifest"),
        "files_changed": ch.get("files_changed"),
        "author": "fresh sub-agent given only the property text and a scratch worktree",
        "confirmed": {
            "patch_applies_to_current_tree": True,
            "demo_exit_unchanged_tree": ev.get("demo_clean"),
            "demo_exit_with_patch": ev.get("demo_patched"),
            "suite_with_patch": ev.get("suite", [""])[0],
            "how": f"git apply in the scratch worktree {wt}; PYTHONPATH={wt}/src /venv/bin/python demo.py; python3 tools/baseline.py {wt}; VERIF_REPO={wt} ./check {pid} --tier quick",
        },
        "detected_by": detected_by,
        "check_exit": ev.get("check_rc"),
        "witnesses": ev.get("check_viol", [])[:3],
    }, open(f"{d}/meta.json", "w"), indent=1)
    print(pid, n, "stored; detected_by", detected_by)
