#!/usr/bin/env python3
"""Evaluate sub-agent deliverables in a scratch worktree: tools/seedeval.py Cxx [tier]
For each patchN.diff: demo passes clean / fails patched, suite baseline preserved, ./check Cxx detects (exit 1)."""
import json, os, subprocess, sys

pid = sys.argv[1]
tier = sys.argv[2] if len(sys.argv) > 2 else "quick"
extra_checks = sys.argv[3:]  # other properties to try when the own check misses
wt = f"/tmp/wt-{pid}"
PY = "/venv/bin/python"


def sh(cmd, **kw):
    return subprocess.run(cmd, shell=isinstance(cmd, str), stdout=subprocess.PIPE, stderr=subprocess.STDOUT, text=True, **kw)


def demo(n):
    e = dict(os.environ, PYTHONPATH=f"{wt}/src", PYTHONHASHSEED="0")  # some demos compare hash-ordered lists
    p = subprocess.run([PY, f"{wt}/demo{n}.py"], env=e, stdout=subprocess.PIPE, stderr=subprocess.STDOUT, text=True, timeout=600, cwd="/tmp")
    return p.returncode, p.stdout[-400:]


def check(prop):
    ev = f"/dev/shm/seedeval-{pid}-{prop}"
    e = dict(os.environ, VERIF_REPO=wt, VERIF_EVIDENCE_DIR=ev)
    p = subprocess.run(["/verif/check", prop, "--tier", tier], env=e, stdout=subprocess.PIPE, stderr=subprocess.STDOUT, text=True)
    viol = [l for l in p.stdout.splitlines() if "witness key" in l or l.startswith("INCONCLUSIVE")]
    subprocess.run(["rm", "-rf", ev])
    return p.returncode, viol


out = {}
sh(f"git -C {wt} checkout -- src")
for n in range(1, 21):
    patch = f"{wt}/patch{n}.diff"
    if not os.path.exists(patch):
        continue
    r = {"patch": patch}
    r["demo_clean"] = demo(n)[0]
    a = sh(f"git -C {wt} apply {patch}")
    if a.returncode != 0:
        r["apply"] = a.stdout[-300:]
        out[n] = r
        continue
    try:
        rc, tail = demo(n)
        r["demo_patched"] = rc
        # the pinned command uses --doctest-modules, which imports every .py below the root: keep the demos out of its way
        sh(f"mkdir -p {wt}/.hold && mv {wt}/demo*.py {wt}/.hold/")
        try:
            b = sh(f"python3 /verif/tools/baseline.py {wt}")
        finally:
            sh(f"mv {wt}/.hold/demo*.py {wt}/ && rmdir {wt}/.hold")
        r["suite"] = b.stdout.strip().splitlines()[:4]
        rc, viol = check(pid)
        r["check_rc"] = rc
        r["check_viol"] = [v.strip()[:260] for v in viol[:4]]
        if rc != 1:
            for other in extra_checks:
                rc2, viol2 = check(other)
                r[f"check_{other}_rc"] = rc2
                r[f"check_{other}_viol"] = [v.strip()[:200] for v in viol2[:3]]
    finally:
        sh(f"git -C {wt} checkout -- src")
    out[n] = r
print(json.dumps(out, indent=1))
