#!/usr/bin/env python3
"""Regenerate MANIFEST.json from vlib/registry.py (keeps the file valid at all times)."""
import json, sys
sys.path.insert(0, "/verif")
from vlib import registry
props = [json.loads(l)["id"] for l in open("/verif/properties.jsonl")]
checks, na = [], []
for pid in props:
    e = registry.CHECKS.get(pid)
    if e is None:
        na.append({"property_id": pid, "reason": registry.NOT_APPLICABLE.get(pid, "check not built yet")})
        continue
    checks.append({
        "property_id": pid,
        "quick_cmd": f"./check {pid} --tier quick",
        "thorough_cmd": f"./check {pid} --tier thorough",
        "evidence_file": f"/verif/evidence/{pid}.json",
        "replay_cmd_template": f"./check {pid} --replay {{path}}",
        "engine": "vlib",
        "level_claimed": {"category": e["level"], "text": e["text"], "design_ref": f"DESIGN.md section 5, {pid}"},
        "level_note": e["note"],
        "technique": e["technique"],
    })
m = {
    "version": 1,
    "setup_cmd": "/venv/bin/pip install -q --no-index --find-links /opt/veriftools/wheels --target /verif/.deps icontract >/dev/null 2>&1; /venv/bin/python -m compileall -q /verif/vlib >/dev/null 2>&1; true",
    "hooks": {
        "guard": "REUSE_VERIF",
        "enable": "no hook lives inside fsfe/reuse-tool: all instrumentation (audit hooks, contracts, monkeypatched os.walk / Pool, fault injection) is applied from outside by /verif/vlib when REUSE_VERIF=1, which ./check sets; the code under test is imported from /repo/src as it is on disk",
        "baseline_off_cmd": "python3 /verif/tools/baseline.py",
        "source_commits": [],
        "add_only": True,
    },
    "engines": [{"name": "vlib", "path": "/verif/vlib", "serves_properties": [c["property_id"] for c in checks],
                 "kind_free_text": "runtime monitoring: generated hostile workloads driven through the real CLI / real functions, observed by reference-model oracles, recording contracts (icontract), audit-hook file-system monitors, tree snapshots, failpoints and schedule/order perturbation"}],
    "checks": checks,
    "not_applicable": na,
    "notes": "Exit 0 held on everything observed; exit 1 + VIOLATION line for a confirmed violation not listed in known_findings.json; exit 2 + INCONCLUSIVE when a deciding monitor was not reached. VERIF_SEED / VERIF_TIER honoured. Genuine defects of the pinned tree repaired by 'fix:' commits are listed as fixed in known_findings.json.",
}
json.dump(m, open("/verif/MANIFEST.json", "w"), indent=1)
print(len(checks), "checks,", len(na), "not applicable")
