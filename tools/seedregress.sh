#!/bin/sh
# Re-run every kept seeded change against its property's quick check (scratch copy of /repo/src, never /repo itself).
# usage: [JOBS=n] tools/seedregress.sh [Cxx ...]     (JOBS properties at a time, default 4)
cd "$(dirname "$0")/.." || exit 2
if [ "$1" = "--one" ]; then
  prop=$2
  for d in $(ls -d seeded/$prop-*/ | sort -t- -k2 -n); do
    id=$(basename "$d")
    out=$(tools/mutant.sh "$d/patch.diff" "$prop" quick 2>&1)
    if echo "$out" | grep -q "^VIOLATION property=$prop"; then echo "$id caught"; else echo "$id MISSED: $(echo "$out" | tail -1 | cut -c1-160)"; fi
  done
  exit 0
fi
PROPS="$*"
[ -n "$PROPS" ] || PROPS="C01 C02 C03 C04 C05 C06 C07 C08 C09 C10 C11 C12 C13 C14 C15 C16 C17 C18 C19 C20"
LOG=$(mktemp /dev/shm/seedregress.XXXXXX)
echo $PROPS | tr ' ' '\n' | xargs -P "${JOBS:-4}" -I{} sh "$0" --one {} | tee "$LOG"
echo "caught: $(grep -c ' caught$' "$LOG")  missed: $(grep -c ' MISSED' "$LOG")"
if grep -q ' MISSED' "$LOG"; then rm -f "$LOG"; exit 1; fi
rm -f "$LOG"
exit 0
