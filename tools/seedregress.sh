#!/bin/sh
# Re-run every kept seeded change against its property's quick check (scratch copy of /repo/src, never /repo itself).
# usage: tools/seedregress.sh [Cxx ...]
cd "$(dirname "$0")/.." || exit 2
FAIL=0
for d in seeded/*/; do
  id=$(basename "$d"); prop=${id%%-*}
  if [ $# -gt 0 ]; then case " $* " in *" $prop "*) ;; *) continue;; esac; fi
  out=$(tools/mutant.sh "$d/patch.diff" "$prop" quick 2>&1)
  if echo "$out" | grep -q "^VIOLATION property=$prop"; then echo "$id caught"; else echo "$id MISSED: $(echo "$out" | tail -1 | cut -c1-160)"; FAIL=1; fi
done
exit $FAIL
