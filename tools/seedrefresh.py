#!/usr/bin/env python3
"""tools/seedrefresh.py [ids...]: re-run the property's quick check against stored seeded changes (default: those not yet
detected) on a scratch copy of /repo/src and record the outcome in their meta.json."""
import glob, json, os, subprocess, sys, tempfile, shutil

ids = sys.argv[1:]
dirs = sorted(glob.glob("/verif/seeded/C*-*"))
for d in dirs:
    sid = os.path.basename(d)
    m = json.load(open(d + "/meta.json"))
    if ids and sid not in ids:
        continue
    if not ids and m.get("detected_by"):
        continue
    prop = sid.split("-")[0]
    t = tempfile.mkdtemp(prefix="seedrefresh.", dir="/dev/shm")
    try:
        shutil.copytree("/repo/src", t + "/src")
        p = subprocess.run(["patch", "-s", "-p1", "-i", d + "/patch.diff"], cwd=t, stdout=subprocess.PIPE, stderr=subprocess.STDOUT, text=True)
        if p.returncode != 0:
            print(sid, "PATCH FAILED", p.stdout[-200:])
            continue
        e = dict(os.environ, VERIF_REPO=t, VERIF_EVIDENCE_DIR=t + "/evidence")
        r = subprocess.run(["/verif/check", prop, "--tier", "quick"], env=e, stdout=subprocess.PIPE, stderr=subprocess.STDOUT, text=True, errors="replace")
        wit = [l.strip()[:260] for l in r.stdout.splitlines() if "witness key" in l][:3]
        m["detected_by"] = [prop] if r.returncode == 1 else []
        m["check_exit"] = r.returncode
        m["witnesses"] = wit
        m.setdefault("confirmed", {})["patch_applies_to_current_tree"] = True
        json.dump(m, open(d + "/meta.json", "w"), indent=1)
        print(sid, "rc", r.returncode, (wit or [""])[0][:140])
    finally:
        shutil.rmtree(t, ignore_errors=True)
