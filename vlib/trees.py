"""Project-tree recipes: generation, materialisation on disk, and the specification model.

A recipe is JSON-serialisable.  The model (`spec_expect`) is computed from the recipe only - the
generator knows what it wrote and never parses its own files back.
"""

import json
import os
import subprocess
from pathlib import Path

from . import env

_SPDX = None


def spdx_lists():
    """Identifier classes straight from the bundled data files (data, not code)."""
    global _SPDX
    if _SPDX is None:
        res = env.SRC / "reuse" / "resources"
        lic = json.loads((res / "licenses.json").read_text(encoding="utf-8"))["licenses"]
        exc = json.loads((res / "exceptions.json").read_text(encoding="utf-8"))["exceptions"]
        _SPDX = {
            "licenses": {x["licenseId"]: bool(x["isDeprecatedLicenseId"]) for x in lic},
            "exceptions": {x["licenseExceptionId"]: bool(x["isDeprecatedLicenseId"]) for x in exc},
        }
        _SPDX["all"] = {**_SPDX["licenses"], **_SPDX["exceptions"]}
    return _SPDX


def is_licenseref(s):
    if not s.startswith("LicenseRef-") or len(s) == len("LicenseRef-"):
        return False
    return all(c.isascii() and (c.isalnum() or c in "-.") for c in s[len("LicenseRef-"):])


def strip_plus(s):
    return s[:-1] if s.endswith("+") else s


# ---------------------------------------------------------------------------
# expressions: tiny AST -> canonical text, identifiers


def expr_ids(e):
    """e is ('id', X) | ('with', X, EXC) | ('and'|'or', [e...])"""
    if e[0] == "id":
        return [e[1]]
    if e[0] == "with":
        return [e[1], e[2]]
    out = []
    for s in e[1]:
        out += expr_ids(s)
    return out


def expr_text(e, top=True):
    if e[0] == "id":
        return e[1]
    if e[0] == "with":
        return f"{e[1]} WITH {e[2]}"
    op = " AND " if e[0] == "and" else " OR "
    s = op.join(expr_text(x, False) for x in e[1])
    return s if top else f"({s})"


def expr_eval(e, assign):
    if e[0] == "id":
        return assign[e[1]]
    if e[0] == "with":
        return assign[e[1] + " WITH " + e[2]]
    vals = [expr_eval(x, assign) for x in e[1]]
    return all(vals) if e[0] == "and" else any(vals)


def gen_expr(rng, ids, excs, depth=0):
    r = rng.random()
    if depth >= 2 or r < 0.6:
        if excs and rng.random() < 0.15:
            return ("with", rng.choice(ids), rng.choice(excs))
        i = rng.choice(ids)
        if rng.random() < 0.1 and not i.endswith(("-only", "-or-later", "+")) and not i.startswith("LicenseRef-") \
                and i in spdx_lists()["licenses"] and (i + "+") not in spdx_lists()["licenses"]:
            i += "+"   # 'or any later version': served by the text of the plain identifier
        return ("id", i)
    op = rng.choice(["and", "or"])
    subs = []
    for _ in range(rng.randint(2, 3)):
        s = gen_expr(rng, ids, excs, depth + 1)
        if s[0] == op:  # keep canonical: no same-operator nesting
            s = ("id", rng.choice(ids))
        subs.append(s)
    # avoid duplicate operands (license_expression would dedupe on simplify only, but keep it plain)
    seen, uniq = set(), []
    for s in subs:
        t = expr_text(s)
        if t not in seen:
            seen.add(t)
            uniq.append(s)
    if len(uniq) == 1:
        return uniq[0]
    return (op, uniq)


# ---------------------------------------------------------------------------
# comment rendering from the style tables of the code under test (input domain, not oracle)


def style_table():
    from reuse import comment

    out = {}
    for cls in comment._all_style_classes():
        if cls.__name__ in ("EmptyCommentStyle", "UncommentableCommentStyle"):
            continue
        out[cls.SHORTHAND or cls.__name__] = {
            "name": cls.__name__, "single": cls.SINGLE_LINE, "indent_single": cls.INDENT_AFTER_SINGLE,
            "multi": tuple(cls.MULTI_LINE), "ibm": cls.INDENT_BEFORE_MIDDLE, "iam": cls.INDENT_AFTER_MIDDLE,
            "ibe": cls.INDENT_BEFORE_END, "shebangs": list(cls.SHEBANGS),
        }
    return out


def comment_block(st, lines, multi=False):
    """Plain rendering of `lines` as a comment in style table entry `st` (own, independent of create_comment)."""
    if st["single"] and not (multi and st["multi"][0] and st["multi"][2]):
        return "\n".join((st["single"] + (st["indent_single"] + ln if ln else "")) for ln in lines)
    start, mid, end = st["multi"]
    out = [start]
    for ln in lines:
        s = (st["ibm"] + mid) if mid else ""
        if ln:
            s += st["iam"] + ln
        out.append(s)
    out.append(st["ibe"] + end)
    return "\n".join(out)


# ---------------------------------------------------------------------------
# recipe generation

# a blob that binaryornot recognises by signature (its statistical classifier is not relied upon)
BINARY_BLOB = b"\x89PNG\r\n\x1a\n\x00\x00\x00\rIHDR" + bytes(range(128, 256)) + b"\x00\x00\x01\x00"

GOOD_IDS = ["MIT", "Apache-2.0", "GPL-3.0-or-later", "CC0-1.0", "BSD-3-Clause", "0BSD", "GPL-2.0-only", "LGPL-2.1-or-later",
            "MPL-2.0", "ISC", "EUPL-1.2", "CC-BY-SA-4.0", "Unlicense", "Zlib"]
GOOD_EXC = ["Classpath-exception-2.0", "GCC-exception-3.1", "LLVM-exception", "Autoconf-exception-3.0"]
DEPRECATED_IDS = ["GPL-2.0", "GPL-3.0", "AGPL-3.0", "LGPL-2.1", "GFDL-1.3", "BSD-2-Clause-FreeBSD"]
BAD_IDS = ["Unknown-1.0", "mit", "NotALicense", "GPL-9.9", "Apache2", "LicenseRef"]
REF_IDS = ["LicenseRef-custom", "LicenseRef-Proprietary.v2", "LicenseRef-my-own-1.0"]
HOLDERS = ["Jane Doe", "John Smith <john@example.com>", "Example Corp.", "Free Software Foundation Europe e.V. <https://fsfe.org>",
           "Zoë Müller", "The Project Contributors", "ACME, Inc."]
DIRS = ["", "", "src", "src/sub", "docs", "a/b/c", "data", "sp ace", "ünï"]
EXTS = [".py", ".c", ".html", ".txt", ".rs", ".js", ".md", ".jl", ".sh", ".ml", ".tex", "", ".dat", ".cfg"]


def _fname(rng, used, spicy):
    for _ in range(100):
        d = rng.choice(DIRS if spicy else [x for x in DIRS if " " not in x and x.isascii()])
        stem = rng.choice(["main", "util", "readme", "module", "x", "data_1", "Index", "file with space", "naïve", "a-b", "v1.2", "back\\slash"]
                          if spicy else ["main", "util", "readme", "module", "x", "data_1", "Index", "a-b", "v1.2"])
        name = stem + str(rng.randint(0, 99)) + rng.choice(EXTS)
        p = f"{d}/{name}" if d else name
        if p not in used:
            used.add(p)
            return p
    raise RuntimeError("no name")


_COLLIDING = {}


def _colliding_ids(style):
    """Current SPDX identifiers whose last character occurs in the (alphanumeric) comment marker of `style`."""
    if not _COLLIDING:
        ids = sorted(i for i, dep in spdx_lists()["licenses"].items() if not dep)
        for k, v in style_table().items():
            pre = v["single"] or (v["multi"][1] if v["multi"] else "")
            # (an identifier ending in the whole mirrored marker, 'LPPL-1.3c' after Fortran's 'c', is the listed C02 finding
            # mirrored-prefix-strip-eats-value-tail and is left to C02)
            _COLLIDING[k] = [i for i in ids if i[-1] in pre and not i.endswith(pre.strip()[::-1])] if pre and any(c.isalnum() for c in pre) else []
    return _COLLIDING.get(style, [])


def gen_recipe(rng, n_files=None, defects=(), spicy=False, global_mode=None, git=False, styles=None, allow_multi_sources=True):
    """Compliant-by-construction tree + the listed injected defects.

    defects: iterable of names from DEFECTS.  Returns the recipe dict.
    """
    styles = styles or sorted(style_table())
    n_files = n_files or rng.randint(3, 12)
    if global_mode is None:
        global_mode = rng.choice(["none", "toml", "toml", "dep5"])
    used_names = set()
    files = []
    provided = {}  # LICENSES/ file name -> identifier it provides (None = bad)
    for _ in range(n_files):
        path = _fname(rng, used_names, spicy)
        kind = "binary" if rng.random() < 0.12 else "text"
        carriers = ["header", "dotlicense"] if kind == "text" else ["dotlicense"]
        if global_mode == "toml":
            carriers += ["toml-override", "toml-aggregate", "toml-closest"]
        elif global_mode == "dep5":
            carriers += ["dep5"]
        carrier = rng.choice(carriers)
        if carrier == "dep5" and (" " in path or not path.isascii()):
            carrier = "dotlicense"
        cops = [f"{rng.randint(1990, 2024)} {rng.choice(HOLDERS)}" for _ in range(rng.randint(1, 2))]
        exprs = [gen_expr(rng, GOOD_IDS + (REF_IDS if rng.random() < 0.2 else []), GOOD_EXC) for _ in range(1 if rng.random() < 0.75 else 2)]
        if carrier == "dep5":
            exprs = exprs[:1]
        f = {"path": path, "kind": kind, "style": rng.choice(styles), "multi": rng.random() < 0.3,
             "sources": [{"carrier": carrier, "copyrights": cops, "exprs": exprs,
                          "toml_dir": ""}]}
        if carrier in ("header", "dotlicense") and cops and rng.random() < 0.15:
            # the same holder once more, in another notice style and with another year
            holder = cops[0].split(" ", 1)[1]
            f["sources"][0]["raw_cops"] = [rng.choice(["Copyright (C) {} {}", "Copyright {} {}", "© {} {}", "Copyright © {} {}"]).format(rng.randint(1980, 1989), holder)]
        hits = _colliding_ids(f["style"]) if carrier == "header" else []
        if hits and rng.random() < 0.6:
            # a comment marker made of letters (dnl, REM, c) and an identifier that ends in one of them
            f["sources"][0]["exprs"] = [("id", rng.choice(hits))]
        if carrier.startswith("toml") and "/" in path and rng.random() < 0.4:
            # nested REUSE.toml in the file's top directory
            f["sources"][0]["toml_dir"] = path.split("/")[0]
        if allow_multi_sources and carrier == "toml-aggregate" and kind == "text" and rng.random() < 0.5:
            # aggregate: the file's own header contributes as well
            f["sources"].append({"carrier": "header", "copyrights": [f"{rng.randint(1990, 2024)} {rng.choice(HOLDERS)}"],
                                 "exprs": [gen_expr(rng, GOOD_IDS, [])], "toml_dir": ""})
        # bodies that defeat caches keyed on name or content: same base name in another directory, byte-identical twins,
        # and sizes around the checksum block (8192) and the header window (4096)
        r = rng.random()
        if r < 0.12:
            f["body"] = "twin"
        elif r < 0.24:
            f["body"] = "big:" + str(rng.choice([4096, 8192, 8192 * 2, 8191, 8193, 4097, 20000]))
        files.append(f)
        if rng.random() < 0.15 and "/" in path:
            # a second file with the same base name elsewhere, with its own (different) information
            base = path.rsplit("/", 1)[1]
            other = "dup/" + base
            if other not in used_names and global_mode != "dep5":
                used_names.add(other)
                files.append({"path": other, "kind": "text", "style": rng.choice(styles), "multi": False,
                              "sources": [{"carrier": "header", "copyrights": [f"{rng.randint(1990, 2024)} Dup {rng.choice(HOLDERS)}"],
                                           "exprs": [gen_expr(rng, GOOD_IDS, [])], "toml_dir": ""}]})

    if global_mode == "toml" and rng.random() < 0.3 and not any(f["path"].startswith("shared/") for f in files):
        # one aggregate table whose glob serves several files, one of which adds information of its own: what one file
        # contributes stays with that file
        shared = {"carrier": "toml-aggregate", "copyrights": [f"{rng.randint(1990, 2024)} Shared Table"], "exprs": [gen_expr(rng, GOOD_IDS, [])],
                  "toml_dir": "", "toml_path": "shared/**"}
        for n, own in (("shared/a_first.c", True), ("shared/b_plain.c", False), ("shared/deep/c_plain.c", False), ("shared/z_last.py", rng.random() < 0.5)):
            srcs = [dict(shared)]
            if own:
                srcs.append({"carrier": "header", "copyrights": [f"{rng.randint(1990, 2024)} {rng.choice(HOLDERS)}"],
                             "exprs": [gen_expr(rng, GOOD_IDS, GOOD_EXC)], "toml_dir": ""})
            files.append({"path": n, "kind": "text", "style": rng.choice(styles), "multi": False, "sources": srcs, "shared_table": True})
    if global_mode == "toml" and rng.random() < 0.25 and not any(f["path"].startswith("near/") for f in files):
        # one *closest* table for several files; the first of them (in walk order) states half of its information itself, so only
        # the other half comes from the table - which the table must still have for the files after it
        near = {"carrier": "toml-closest", "copyrights": [f"{rng.randint(1990, 2024)} Near Table"], "exprs": [gen_expr(rng, GOOD_IDS, [])],
                "toml_dir": "", "toml_path": "near/**"}
        half = rng.choice(["cop", "lic"])
        own = {"carrier": "header", "copyrights": [f"{rng.randint(1990, 2024)} Own Half"] if half == "cop" else [],
               "exprs": [gen_expr(rng, GOOD_IDS, [])] if half == "lic" else [], "toml_dir": ""}
        files.append({"path": "near/a_half.py", "kind": "text", "style": "python", "multi": False, "shared_table": True,
                      "sources": [own, dict(near, applies="lic" if half == "cop" else "cop")]})
        for n in ("near/b_plain.c", "near/sub/c_plain.py", "near/z_plain.txt"):
            files.append({"path": n, "kind": "text", "style": rng.choice(styles), "multi": False, "shared_table": True, "sources": [dict(near)]})
    recipe = {"files": files, "licenses": [], "global_mode": global_mode, "git": git, "defects": list(defects), "extra": []}

    # --- defects that act on files
    for d in defects:
        victims = [f for f in files if not f.get("defect") and not f.get("shared_table")]
        if not victims:
            break
        v = rng.choice(victims)
        if d in ("no-copyright", "no-licence") and any(s["carrier"] == "dep5" for s in v["sources"]):
            d = "no-info"  # a dep5 paragraph needs both fields; the whole paragraph is dropped instead
        if d == "no-copyright":
            for s in v["sources"]:
                s["copyrights"] = []
                s.pop("raw_cops", None)
            v["defect"] = d
        elif d == "no-licence":
            for s in v["sources"]:
                s["exprs"] = []
            v["defect"] = d
        elif d == "no-info":
            for s in v["sources"]:
                s["copyrights"] = []
                s.pop("raw_cops", None)
                s["exprs"] = []
            v["defect"] = d
        elif d == "bad-id-in-file":
            v["sources"][0]["exprs"] = [("id", rng.choice(BAD_IDS[:5]))]
            v["defect"] = d
        elif d == "unreadable":
            if v["kind"] == "text" and all(s["carrier"] == "header" for s in v["sources"]):
                v["unreadable"] = True
                v["defect"] = d
            else:
                # make a fresh plain file the victim
                path = _fname(rng, used_names, spicy)
                files.append({"path": path, "kind": "text", "style": "python", "multi": False, "unreadable": True, "defect": d,
                              "sources": [{"carrier": "header", "copyrights": ["2020 Jane Doe"], "exprs": [("id", "MIT")], "toml_dir": ""}]})
        elif d == "deprecated-text":
            dep = rng.choice(DEPRECATED_IDS)
            v["sources"][0]["exprs"] = [("id", dep)]
            v["defect"] = d

    # --- LICENSES/: exactly what readable files use
    used = set()
    for f in files:
        if f.get("unreadable"):
            continue
        for s in f["sources"]:
            for e in s["exprs"]:
                used.update(expr_ids(e))
    missing_wanted = [d for d in defects if d == "missing-text"]
    used_l = sorted(used)
    rng.shuffle(used_l)
    skip = set()
    for _ in missing_wanted:
        cand = [u for u in used_l if u not in skip and u not in BAD_IDS]
        if cand:
            skip.add(cand[0])
    served = set()
    for u in used_l:
        if u in skip or u in BAD_IDS:
            continue
        if strip_plus(u) in served or (strip_plus(u) in skip):
            continue  # 'X' and 'X+' share one text
        served.add(strip_plus(u))
        ext = rng.choice([".txt", ".txt", ".txt", ".md", ".rst"])
        sub = "sub/" if rng.random() < 0.1 else ""
        recipe["licenses"].append({"name": f"{sub}{strip_plus(u)}{ext}", "id": strip_plus(u)})
    have = {x["id"] for x in recipe["licenses"]}
    for d in defects:
        if d == "unused-text":
            cand = [i for i in GOOD_IDS + REF_IDS if i not in have and i not in used]
            i = rng.choice(cand) if cand else f"LicenseRef-unused-{len(have)}"
            recipe["licenses"].append({"name": f"{i}.txt", "id": i})
            have.add(i)
        elif d == "bad-text":
            i = rng.choice(["NotALicense", "my-license", "Custom_License", "mit"])
            if i not in have:
                recipe["licenses"].append({"name": f"{i}.txt", "id": i})
                have.add(i)
        elif d == "no-extension-text":
            cand = [x for x in recipe["licenses"] if x["id"] in spdx_lists()["all"] and "/" not in x["name"]]
            if cand:
                x = rng.choice(cand)
                x["name"] = x["id"]
                x["noext"] = True
    # a .license sibling next to a licence text is legal and must be skipped
    if recipe["licenses"] and rng.random() < 0.2:
        recipe["extra"].append({"path": "LICENSES/" + recipe["licenses"][0]["name"] + ".license",
                                "text": "SPDX-FileCopyrightText: 2020 X\nSPDX-License-Identifier: CC0-1.0\n"})
    # non-covered extras that must not be reported
    if rng.random() < 0.5:
        recipe["extra"].append({"path": rng.choice(["LICENSE", "COPYING", "LICENSE.txt", "docs/COPYING.md", "LICENCE-MIT"]),
                                "text": "some licence text without tags\n"})
    if rng.random() < 0.3:
        recipe["extra"].append({"path": rng.choice(["empty.py", "src/__init__.py"]), "text": ""})
    return recipe


DEFECTS = ["no-copyright", "no-licence", "no-info", "missing-text", "unused-text", "bad-id-in-file", "bad-text",
           "deprecated-text", "no-extension-text", "unreadable"]


# ---------------------------------------------------------------------------
# materialise


def _tag_lines(src):
    lines = [f"SPDX-FileCopyrightText: {c}" for c in src["copyrights"]] + list(src.get("raw_cops", []))
    if src["copyrights"] and src["exprs"]:
        lines.append("")
    lines += [f"SPDX-License-Identifier: {expr_text(e)}" for e in src["exprs"]]
    return lines


def _toml_str(s):
    return json.dumps(s, ensure_ascii=False)


def build(recipe, root, styles=None):
    """Write the tree; returns list of absolute paths to make unreadable (for the fault injector)."""
    root = Path(root)
    root.mkdir(parents=True, exist_ok=True)
    styles = styles or style_table()
    unreadable = []
    toml_tables = {}  # dir -> list of table text
    dep5_paras = []
    for f in recipe["files"]:
        p = root / f["path"]
        p.parent.mkdir(parents=True, exist_ok=True)
        header_src = [s for s in f["sources"] if s["carrier"] == "header"]
        body = f"code of {f['path']}\nmore code\n"
        bspec = f.get("body", "")
        if bspec == "twin":
            body = "identical bytes in several files\nline two\n"
        elif bspec.startswith("big:"):
            body = body + "x" * 60 + "\n"
            body = (body * (int(bspec[4:]) // len(body) + 1))[: int(bspec[4:])]
        if f["kind"] == "binary":
            p.write_bytes(BINARY_BLOB + b"\n# SPDX-License-Identifier: LicenseRef-inside-binary\n")
        else:
            text = ""
            if header_src and (header_src[0]["copyrights"] or header_src[0]["exprs"]):
                text = comment_block(styles[f["style"]], _tag_lines(header_src[0]), f.get("multi", False)) + "\n\n"
            p.write_bytes((text + body).encode("utf-8"))
        if f.get("unreadable"):
            unreadable.append(str(p))
        for s in f["sources"]:
            c = s["carrier"]
            if c == "dotlicense":
                lp = Path(str(p) + ".license")
                lp.write_text("\n".join(_tag_lines(s)) + "\n", encoding="utf-8")
            elif c.startswith("toml-"):
                d = s.get("toml_dir", "")
                rel = f["path"][len(d) + 1:] if d else f["path"]
                esc = rel.replace("\\", "\\\\").replace("*", "\\*")
                if s.get("toml_path"):
                    esc = s["toml_path"]   # a glob shared by several files: one table serves them all
                t = ["[[annotations]]", f"path = {_toml_str(esc)}", f'precedence = "{c[5:]}"']
                if s["copyrights"]:
                    t.append("SPDX-FileCopyrightText = " + (_toml_str(s["copyrights"][0]) if len(s["copyrights"]) == 1
                                                           else "[" + ", ".join(_toml_str(x) for x in s["copyrights"]) + "]"))
                if s["exprs"]:
                    ex = [expr_text(e) for e in s["exprs"]]
                    t.append("SPDX-License-Identifier = " + (_toml_str(ex[0]) if len(ex) == 1 else "[" + ", ".join(_toml_str(x) for x in ex) + "]"))
                if "\n".join(t) not in toml_tables.setdefault(d, []):
                    toml_tables[d].append("\n".join(t))
            elif c == "dep5":
                if s["copyrights"] and s["exprs"]:
                    # dep5 cannot hold several expressions; join with AND is not the same thing: the generator only
                    # gives dep5 carriers one expression
                    esc = f["path"].replace("\\", "\\\\").replace("*", "\\*").replace("?", "\\?").replace(" ", "?")
                    dep5_paras.append((f["path"], s))
    for d, tables in toml_tables.items():
        tp = root / d / "REUSE.toml"
        tp.parent.mkdir(parents=True, exist_ok=True)
        tp.write_text("version = 1\n\n" + "\n\n".join(tables) + "\n", encoding="utf-8")
    if recipe["global_mode"] == "toml" and "" not in toml_tables and recipe.get("force_root_toml"):
        (root / "REUSE.toml").write_text("version = 1\n", encoding="utf-8")
    if recipe["global_mode"] == "dep5":
        lines = ["Format: https://www.debian.org/doc/packaging-manuals/copyright-format/1.0/", "Upstream-Name: demo",
                 "Upstream-Contact: Jane Doe <jane@example.com>", "Source: https://example.com/demo", ""]
        for path, s in dep5_paras:
            lines.append("Files: " + dep5_escape(path))
            cl = s["copyrights"]
            lines.append("Copyright: " + cl[0])
            for extra in cl[1:]:
                lines.append("           " + extra)
            lines.append("License: " + expr_text(s["exprs"][0]))
            lines.append("")
        (root / ".reuse").mkdir(exist_ok=True)
        (root / ".reuse" / "dep5").write_text("\n".join(lines), encoding="utf-8")
    for lic in recipe["licenses"]:
        lp = root / "LICENSES" / lic["name"]
        lp.parent.mkdir(parents=True, exist_ok=True)
        lp.write_text(f"Licence text of {lic['id']}\nwith two lines\n", encoding="utf-8")
    for x in recipe["extra"]:
        xp = root / x["path"]
        xp.parent.mkdir(parents=True, exist_ok=True)
        xp.write_text(x["text"], encoding="utf-8")
    if recipe.get("git"):
        git_init(root)
    return unreadable


def dep5_escape(path):
    # dep5 Files patterns: whitespace separates patterns; '*' and '?' are wildcards; backslash escapes
    out = []
    for ch in path:
        if ch in "*?\\":
            out.append("\\" + ch)
        elif ch == " ":
            out.append("?")  # cannot be written literally; the generator avoids blanks for dep5 carriers instead
        else:
            out.append(ch)
    return "".join(out)


GIT_ENV = {"GIT_CONFIG_GLOBAL": "/dev/null", "GIT_CONFIG_SYSTEM": "/dev/null", "GIT_AUTHOR_NAME": "v", "GIT_AUTHOR_EMAIL": "v@example.com",
           "GIT_COMMITTER_NAME": "v", "GIT_COMMITTER_EMAIL": "v@example.com", "HOME": "/nonexistent"}


def git(root, *args, check=True):
    envv = dict(os.environ)
    envv.update(GIT_ENV)
    return subprocess.run(["git", "-c", "protocol.file.allow=always", "-c", "init.defaultBranch=main", "-c", "core.quotepath=off", *args], cwd=str(root), env=envv, stdout=subprocess.PIPE,
                          stderr=subprocess.PIPE, check=check)


def git_init(root):
    git(root, "init", "-q")


# ---------------------------------------------------------------------------
# the specification model


def file_info(f):
    """(copyright values as lint reports them, expression texts, identifiers) per the recipe."""
    cops, exprs, ids = [], [], []
    for s in f["sources"]:
        # a closest table shared with other files supplies only the kind of information this file does not state itself
        applies = s.get("applies", "both")
        for c in (s["copyrights"] if applies in ("both", "cop") else []):
            if s["carrier"] in ("header", "dotlicense"):
                cops.append("SPDX-FileCopyrightText: " + c)
            else:
                cops.append(c)
        cops += list(s.get("raw_cops", []))
        for e in (s["exprs"] if applies in ("both", "lic") else []):
            exprs.append(expr_text(e))
            ids += expr_ids(e)
    return cops, exprs, ids


def spec_expect(recipe):
    """The eight issue collections + verdict, from the recipe alone."""
    sp = spdx_lists()
    provided = {}
    noext = {}
    for lic in recipe["licenses"]:
        provided[lic["id"]] = "LICENSES/" + lic["name"]
        if lic.get("noext"):
            noext[lic["id"]] = "LICENSES/" + lic["name"]
    exp = {"missing_licenses": {}, "unused_licenses": set(), "bad_licenses": {}, "deprecated_licenses": set(),
           "licenses_without_extension": dict(noext), "missing_copyright_info": set(), "missing_licensing_info": set(),
           "read_errors": set(), "used_licenses": set(), "covered": set()}
    used = set()
    # bad_alt: used, unprovided LicenseRef- identifiers - clause (b) of C01 lumps "unknown" and "no text"; both
    # placements are accepted by C01 (C06 decides which one is right)
    exp["bad_alt"] = {}
    for f in recipe["files"]:
        path = f["path"]
        exp["covered"].add(path)
        if f.get("unreadable"):
            exp["read_errors"].add(path)
            continue
        cops, exprs, ids = file_info(f)
        if not cops:
            exp["missing_copyright_info"].add(path)
        if not ids:
            exp["missing_licensing_info"].add(path)
        for i in ids:
            used.add(i)
            base = strip_plus(i)
            if i not in provided and base not in provided:
                exp["missing_licenses"].setdefault(i, set()).add(path)
            known = i in sp["all"] or base in sp["all"]
            if not known:
                if is_licenseref(i) or is_licenseref(base):
                    if i not in provided and base not in provided:
                        exp["bad_alt"].setdefault(i, set()).add(path)
                else:
                    exp["bad_licenses"].setdefault(i, set()).add(path)
    exp["used_licenses"] = used
    for ident, lpath in provided.items():
        if ident not in used and (ident + "+") not in used:
            exp["unused_licenses"].add(ident)
        if ident in sp["all"]:
            if sp["all"][ident]:
                exp["deprecated_licenses"].add(ident)
        elif not (is_licenseref(ident) and "Unknown" not in ident):
            exp["bad_licenses"].setdefault(ident, set()).add(lpath)
    exp["compliant"] = not any(exp[k] for k in ("missing_licenses", "unused_licenses", "bad_licenses", "deprecated_licenses",
                                               "licenses_without_extension", "missing_copyright_info",
                                               "missing_licensing_info", "read_errors")) and not exp["bad_alt"]
    return exp


ODD_ROOT_NAMES = ["proj", "proj", "pr[v2]", "p*x", "q?y", "sp ace", "ünï", "a[b", "x]y[", "{z}", "dot.d", "da-sh", "subprojects", ".hidden"]


def odd_root(scratch, tag, k):
    """(top, root): the project directory gets a name with blanks / non-ASCII / glob metacharacters now and then."""
    top = scratch / f"{tag}-{k}"
    return top, top / ODD_ROOT_NAMES[k % len(ODD_ROOT_NAMES)]


def place_lint(rng, root):
    """Where a read-only command is run from and how --root is spelled: -> (cwd, global args without --no-multiprocessing)."""
    root = str(root)
    r = rng.random()
    if r < 0.5:
        return root, ["--root", root]
    if r < 0.6:
        return root, []
    if r < 0.7:
        return root, ["--root", "."]
    if r < 0.8:
        parent = os.path.dirname(root)
        return parent, ["--root", os.path.basename(root)]
    if r < 0.85:
        return "/", ["--root", root + "/"]
    subs = [d for d in sorted(os.listdir(root)) if os.path.isdir(os.path.join(root, d)) and not os.path.islink(os.path.join(root, d))
            and not d.startswith(".") and d != "LICENSES"]
    if r < 0.9 and subs:
        # not normalised: down into a directory and up again (the '$(dirname "$0")/..' idiom of scripts)
        if rng.random() < 0.5:
            return root, ["--root", subs[0] + "/.."]
        return os.path.dirname(root), ["--root", os.path.join(root, subs[0], "..")]
    if subs:
        cwd = os.path.join(root, subs[0])
        return cwd, ["--root", os.path.relpath(root, cwd)]
    return root, ["--root", root]


def norm_path(p, root, cwd=None):
    p = str(p)
    root = str(root)
    if cwd is not None and not os.path.isabs(p):
        # file paths are printed relative to cwd (as --root was spelled), licence paths relative to the root
        a = os.path.join(cwd, p)
        p = a if os.path.lexists(a) else os.path.join(root, p)
    if os.path.isabs(p):
        try:
            return os.path.relpath(os.path.realpath(p), os.path.realpath(root))
        except ValueError:
            return p
    return os.path.normpath(p)


def lint_observed(data, root, cwd=None):
    """Normalise `reuse lint --json` output to the shape of spec_expect."""
    nc = data["non_compliant"]
    n = lambda p: norm_path(p, root, cwd)  # noqa: E731
    return {
        "missing_licenses": {k: {n(x) for x in v} for k, v in nc["missing_licenses"].items()},
        "unused_licenses": set(nc["unused_licenses"]),
        "bad_licenses": {k: {n(x) for x in v} for k, v in nc["bad_licenses"].items()},
        "deprecated_licenses": set(nc["deprecated_licenses"]),
        "licenses_without_extension": {k: n(v) for k, v in nc["licenses_without_extension"].items()},
        "missing_copyright_info": {n(x) for x in nc["missing_copyright_info"]},
        "missing_licensing_info": {n(x) for x in nc["missing_licensing_info"]},
        "read_errors": {n(x) for x in nc["read_errors"]},
        "used_licenses": set(data["summary"]["used_licenses"]),
        "covered": {norm_path(f["path"], root) for f in data["files"]} | {n(x) for x in nc["read_errors"]},
        "compliant": data["summary"]["compliant"],
    }


def jsonable(x):
    if isinstance(x, dict):
        return {k: jsonable(v) for k, v in x.items()}
    if isinstance(x, (set, frozenset)):
        return sorted(jsonable(v) for v in x)
    if isinstance(x, (list, tuple)):
        return [jsonable(v) for v in x]
    return x
