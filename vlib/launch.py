"""Real entry point in a fresh interpreter: python -m vlib.launch -- <reuse args>
Imports reuse from $VERIF_REPO/src and calls reuse.cli.main.main() the way reuse/__main__.py does.
Optional perturbation (C14): VERIF_PERTURB="walk=<seed>,workers=<n>,chunk=<k>,delay=<seed>,log=<path>"."""

import os
import random
import sys
import time

_CFG = {}


class Delayed:
    """Per-task seeded delay + task log; picklable (module level)."""

    def __init__(self, fn):
        self.fn = fn

    def __call__(self, item):
        dseed = _CFG.get("delay", 0)
        if dseed:
            r = random.Random(hash((dseed, str(item))) & 0xFFFFFFFF)
            time.sleep(r.random() * 0.004)
        t0 = time.time()
        out = self.fn(item)
        log = _CFG.get("log")
        if log:
            with open(log, "a") as fp:
                fp.write(f"{os.getpid()}\t{t0:.6f}\t{time.time():.6f}\t{item}\n")
        return out


class PoolProxy:
    def __init__(self, *a, **k):
        self._p = _CFG["RealPool"](processes=_CFG["workers"])

    def __enter__(self):
        self._p.__enter__()
        return self

    def __exit__(self, *a):
        return self._p.__exit__(*a)

    def map(self, fn, it, chunksize=None):
        return self._p.map(Delayed(fn), it, chunksize=_CFG.get("chunk"))

    def join(self):
        return self._p.join()


def _perturb(spec):
    opts = dict(kv.split("=", 1) for kv in spec.split(",") if "=" in kv)
    if "walk" in opts:
        rng = random.Random(int(opts["walk"]))
        real_walk = os.walk

        def walk(top, topdown=True, onerror=None, followlinks=False):
            for root, dirs, files in real_walk(top, topdown, onerror, followlinks):
                rng.shuffle(dirs)
                rng.shuffle(files)
                yield root, dirs, files

        os.walk = walk
        import glob

        real_iglob = glob.iglob

        def iglob(*a, **k):
            items = list(real_iglob(*a, **k))
            rng.shuffle(items)
            return iter(items)

        glob.iglob = iglob
    if "workers" in opts:
        import multiprocessing as mp

        _CFG["RealPool"] = mp.Pool
        _CFG["workers"] = int(opts["workers"])
        _CFG["chunk"] = int(opts.get("chunk", "0")) or None
        _CFG["delay"] = int(opts.get("delay", "0"))
        _CFG["log"] = opts.get("log")
        mp.Pool = PoolProxy


def main():
    args = sys.argv[1:]
    if args and args[0] == "--":
        args = args[1:]
    repo = os.environ.get("VERIF_REPO", "/repo")
    sys.path.insert(0, os.path.join(repo, "src"))
    spec = os.environ.get("VERIF_PERTURB")
    if spec:
        _perturb(spec)
    import reuse.cli.main as m

    sys.argv = ["reuse"] + args
    try:
        m.main()
    except SystemExit:
        raise
    except BaseException as e:  # M-exc for the subprocess driver
        sys.stderr.write(f"\nVERIF-ESCAPED {type(e).__name__}: {e}\n")
        import traceback

        traceback.print_exc()
        sys.exit(97)


if __name__ == "__main__":
    main()
