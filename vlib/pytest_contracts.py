"""pytest plugin: run the repository's own tests with the recording contracts attached (a gate for the
machinery, DESIGN 2.5 item 3):  cd /repo && PYTHONPATH=/verif /venv/bin/python -m pytest -q -p vlib.pytest_contracts tests

A contract that records something here is either too strict or a defect the tests do not assert."""

import json
import os
import sys

_STATE = {}


def pytest_configure(config):
    from vlib import env

    env.ensure_deps()
    import reuse.extract as ex  # noqa: F401  (the tests import reuse themselves; make sure it is loaded)

    from vlib.models import glob_ref, notice
    from vlib.monitors import Contracts
    from vlib.props import c12, c20
    from vlib.util import Res

    con = Contracts()

    def cond_filter(kw):
        if kw["result"] != c12.ref_filter(kw["text"]):
            return [{"key": "filter_ignore_block", "what": "differs from the reference scanner", "detail": {"text": kw["text"][:300]}}]
        return []

    def cond_matches(kw):
        item, path, result = kw["self"], kw["path"], kw["result"]
        nar = wid = False
        for g in item.paths:
            toks = glob_ref.tokenize(g)
            if toks is None:
                return []
            nar = nar or glob_ref.Nfa(toks, False).matches(path)
            wid = wid or glob_ref.Nfa(toks, True).matches(path)
        if (nar and not result) or (result and not wid):
            return [{"key": "AnnotationsItem.matches", "what": f"{sorted(item.paths)} vs {path!r}: impl={result} narrow={nar} wide={wid}"}]
        return []

    def cond_merge(kw):
        spec = []
        for line in kw["copyright_lines"]:
            d = notice.decompose(line)
            if d is None:
                return []
            spec.append(d)
        if any(("Copyright" in d[2]) or ("©" in d[2]) or ("(C)" in d[2].upper()) or d[2][:4].isdigit() for d in spec):
            return []
        r = Res()
        keyof = {v: k for k, v in notice.PREFIXES.items()}
        ls = [(keyof.get(p, "spdx"), notice.year_text(ys) if ys else None, h) for p, ys, h in spec]
        c20.judge_merge(r, ls, kw["result"], sorted(kw["copyright_lines"]), label="merge")
        return r.viol

    def cond_create_header(kw):
        import reuse.extract as ex2

        try:
            new = ex2.extract_reuse_info(kw["result"])
            req = kw["reuse_info"]
            old = ex2.extract_reuse_info(kw["header"]) if kw.get("header") else None
        except Exception:  # noqa
            return []
        lost = {str(e) for e in req.spdx_expressions} - {str(e) for e in new.spdx_expressions}
        if old is not None:
            lost |= {str(e) for e in old.spdx_expressions} - {str(e) for e in new.spdx_expressions}
        return [{"key": "create_header", "what": f"result lacks licences {sorted(lost)}"}] if lost else []

    con.attach("reuse.extract", "filter_ignore_block", cond_filter)
    con.attach("reuse.global_licensing", "matches", cond_matches, cls_name="AnnotationsItem")
    con.attach("reuse.copyright", "merge_copyright_lines", cond_merge)
    con.attach("reuse.header", "create_header", cond_create_header)
    _STATE["con"] = con


def pytest_terminal_summary(terminalreporter, exitstatus, config):
    con = _STATE.get("con")
    if con is None:
        return
    recs = con.drain()
    terminalreporter.write_line(f"verif contracts: evaluations {json.dumps(con.evals)}; skipped {con.skipped}; recorded {len(recs)}")
    for r in recs[:20]:
        terminalreporter.write_line("  CONTRACT " + json.dumps(r, default=str)[:400])
    out = os.environ.get("VERIF_CONTRACTS_OUT")
    if out:
        with open(out, "w") as fp:
            json.dump({"evals": con.evals, "skipped": con.skipped, "recorded": recs[:200]}, fp, default=str)
