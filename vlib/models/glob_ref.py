"""Reference matcher for the REUSE.toml glob language (no `re` involved).

tokens: L(c) literal (plain or backslash-escaped), S single asterisk (run of non-'/'),
G run of >= 2 asterisks (any run).  narrow reading: exactly that.  wide reading:
additionally `G` immediately followed by a literal '/' may match the empty string
("**/" matching zero directories, which established usage and the repository's own tests ask for).
"""


def tokenize(glob):
    """Returns list of tokens or None when the glob ends in a lone backslash (grey)."""
    toks = []
    i, n = 0, len(glob)
    while i < n:
        c = glob[i]
        if c == "\\":
            if i + 1 >= n:
                return None
            toks.append(("L", glob[i + 1]))
            i += 2
        elif c == "*":
            j = i
            while j < n and glob[j] == "*":
                j += 1
            toks.append(("G",) if j - i >= 2 else ("S",))
            i = j
        else:
            toks.append(("L", c))
            i += 1
    return toks


class Nfa:
    """Bit-set NFA over the token list; state k = 'k tokens consumed', accept = len(toks)."""

    def __init__(self, toks, wide):
        self.toks = toks
        self.n = len(toks)
        self.wide = wide
        self.accept_bit = 1 << self.n
        # epsilon successors
        self.eps = [0] * (self.n + 1)
        for k, t in enumerate(toks):
            if t[0] in ("S", "G"):
                self.eps[k] |= 1 << (k + 1)
            if wide and t[0] == "G" and k + 1 < self.n and toks[k + 1] == ("L", "/"):
                self.eps[k] |= 1 << (k + 2)
        self.start = self.closure(1)

    def closure(self, s):
        todo = s
        while todo:
            k = todo.bit_length() - 1
            todo &= ~(1 << k)
            new = self.eps[k] & ~s
            s |= new
            todo |= new
        return s

    def step(self, s, ch):
        out = 0
        k = 0
        toks = self.toks
        while s:
            if s & 1 and k < self.n:
                t = toks[k]
                if t[0] == "L":
                    if t[1] == ch:
                        out |= 1 << (k + 1)
                elif t[0] == "S":
                    if ch != "/":
                        out |= 1 << k
                else:
                    out |= 1 << k
            s >>= 1
            k += 1
        return self.closure(out) if out else 0

    def accepts_state(self, s):
        return bool(s & self.accept_bit)

    def matches(self, path):
        s = self.start
        for ch in path:
            s = self.step(s, ch)
            if not s:
                return False
        return bool(s & self.accept_bit)


def narrow(glob, path):
    t = tokenize(glob)
    return None if t is None else Nfa(t, False).matches(path)


def wide(glob, path):
    t = tokenize(glob)
    return None if t is None else Nfa(t, True).matches(path)
