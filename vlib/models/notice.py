"""Copyright notices as (prefix, years, holder): builder and decomposer, independent of the tool.

The prefix table is the documented one (docs/man/reuse-annotate.rst)."""

import re

PREFIXES = {
    "spdx": "SPDX-FileCopyrightText:",
    "spdx-c": "SPDX-FileCopyrightText: (C)",
    "spdx-symbol": "SPDX-FileCopyrightText: ©",
    "spdx-string": "SPDX-FileCopyrightText: Copyright",
    "spdx-string-c": "SPDX-FileCopyrightText: Copyright (C)",
    "spdx-string-symbol": "SPDX-FileCopyrightText: Copyright ©",
    "string": "Copyright",
    "string-c": "Copyright (C)",
    "string-symbol": "Copyright ©",
    "symbol": "©",
}
_BY_LEN = sorted(PREFIXES.values(), key=len, reverse=True) + ["SPDX-SnippetCopyrightText:"]
_YEAR = re.compile(r"^(\d{4})(?: ?- ?(\d{4}))?,?\s+(.*)$", re.S)


def build(prefix_key, year, holder):
    p = PREFIXES[prefix_key]
    return f"{p} {year} {holder}" if year else f"{p} {holder}"


def decompose(line):
    """-> (prefix text, [years], holder) or None when the line does not start with a known prefix."""
    s = line.strip()
    for p in _BY_LEN:
        if s.startswith(p) and (len(s) == len(p) or s[len(p)].isspace()):
            rest = s[len(p):].lstrip()
            m = _YEAR.match(rest)
            if m:
                years = [m.group(1)] + ([m.group(2)] if m.group(2) else [])
                return p, years, m.group(3)
            return p, [], rest
    return None


def year_text(years):
    if not years:
        return None
    lo, hi = min(years), max(years)
    return lo if lo == hi else f"{lo} - {hi}"
