"""Small SPDX tag-value parser (incl. multi-line <text> blocks) and a boolean-expression
parser / truth-table evaluator for SPDX licence expressions."""

import itertools
import re


class TVError(Exception):
    pass


def parse_tv(doc):
    """-> list of (tag, value) pairs; raises TVError when a line is neither 'Tag: value' nor inside <text>."""
    pairs = []
    lines = doc.split("\n")
    i = 0
    while i < len(lines):
        line = lines[i]
        if not line.strip():
            i += 1
            continue
        m = re.match(r"^([A-Za-z][A-Za-z0-9]*): ?(.*)$", line)
        if not m:
            raise TVError(f"line {i + 1} is not 'Tag: value': {line[:120]!r}")
        tag, val = m.group(1), m.group(2)
        if "<text>" in val and "</text>" not in val.split("<text>", 1)[1]:
            buf = [val]
            i += 1
            while i < len(lines):
                buf.append(lines[i])
                if "</text>" in lines[i]:
                    break
                i += 1
            else:
                raise TVError(f"unterminated <text> for tag {tag}")
            val = "\n".join(buf)
        pairs.append((tag, val))
        i += 1
    return pairs


def text_of(val):
    m = re.match(r"^<text>(.*)</text>$", val, re.S)
    return m.group(1) if m else None


def split_document(pairs):
    """-> (header pairs, [file dicts], [license dicts])"""
    header, files, lics = [], [], []
    cur = None
    for tag, val in pairs:
        if tag == "FileName":
            cur = {"FileName": val, "_k": "file", "LicenseInfoInFile": []}
            files.append(cur)
        elif tag == "LicenseID":
            cur = {"LicenseID": val, "_k": "lic"}
            lics.append(cur)
        elif cur is None:
            header.append((tag, val))
        elif tag == "LicenseInfoInFile":
            cur["LicenseInfoInFile"].append(val)
        else:
            if tag in cur:
                raise TVError(f"duplicate tag {tag} in section {cur.get('FileName') or cur.get('LicenseID')}")
            cur[tag] = val
    return header, files, lics


# ---------------------------------------------------------------------------

_TOK = re.compile(r"\s*(\(|\)|[^\s()]+)")


def parse_expr(text):
    """-> AST ('atom', name) | ('and', [..]) | ('or', [..]); raises ValueError"""
    toks = _TOK.findall(text)
    if "".join(toks).replace(" ", "") != re.sub(r"\s+", "", text):
        raise ValueError("untokenisable")
    pos = [0]

    def peek():
        return toks[pos[0]] if pos[0] < len(toks) else None

    def eat():
        t = peek()
        pos[0] += 1
        return t

    def atom():
        t = eat()
        if t is None:
            raise ValueError("unexpected end")
        if t == "(":
            e = or_()
            if eat() != ")":
                raise ValueError("missing )")
            return e
        if t in (")", "AND", "OR", "WITH") or t.upper() in ("AND", "OR", "WITH"):
            raise ValueError(f"unexpected {t}")
        if peek() is not None and peek().upper() == "WITH":
            eat()
            x = eat()
            if x is None or x in "()" or x.upper() in ("AND", "OR", "WITH"):
                raise ValueError("bad WITH")
            return ("atom", f"{t} WITH {x}")
        return ("atom", t)

    def and_():
        parts = [atom()]
        while peek() is not None and peek().upper() == "AND":
            eat()
            parts.append(atom())
        return parts[0] if len(parts) == 1 else ("and", parts)

    def or_():
        parts = [and_()]
        while peek() is not None and peek().upper() == "OR":
            eat()
            parts.append(and_())
        return parts[0] if len(parts) == 1 else ("or", parts)

    e = or_()
    if pos[0] != len(toks):
        raise ValueError("trailing tokens")
    return e


def atoms(e):
    if e[0] == "atom":
        return {e[1]}
    out = set()
    for s in e[1]:
        out |= atoms(s)
    return out


def ids_of(e):
    out = set()
    for a in atoms(e):
        out.update(a.split(" WITH "))
    return out


def ev(e, asg):
    if e[0] == "atom":
        return asg[e[1]]
    vals = [ev(s, asg) for s in e[1]]
    return all(vals) if e[0] == "and" else any(vals)


def equivalent(e1, e2, max_atoms=10):
    """Truth-table equivalence; returns (bool, witness assignment or None); None when too many atoms."""
    al = sorted(atoms(e1) | atoms(e2))
    if len(al) > max_atoms:
        return None, None
    for bits in itertools.product([False, True], repeat=len(al)):
        asg = dict(zip(al, bits))
        if ev(e1, asg) != ev(e2, asg):
            return False, asg
    return True, None
