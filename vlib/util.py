"""Small helpers shared by the property modules."""

import hashlib
import random


def rng_for(seed, *parts):
    h = hashlib.sha256(("|".join(str(p) for p in (seed,) + parts)).encode()).digest()
    return random.Random(int.from_bytes(h[:8], "big"))


def short_hash(*parts):
    return hashlib.sha1(("|".join(str(p) for p in parts)).encode("utf-8", "surrogatepass")).hexdigest()[:12]


class Res:
    """Accumulates the result of one case."""

    def __init__(self):
        self.viol = []
        self.feat = {}
        self.sigs = set()
        self.nsig = 0
        self.n = 0
        self.sample = None

    def violation(self, key, what, **detail):
        if len(self.viol) < 12:
            self.viol.append({"key": key, "what": what, "detail": detail})

    def cell(self, name, n=1):
        self.feat[name] = self.feat.get(name, 0) + n

    def out(self):
        d = {"viol": self.viol, "feat": [[k, v] for k, v in self.feat.items()], "n": self.n}
        if self.sigs:
            d["sigs"] = sorted(self.sigs)
        if self.nsig:
            d["nsig"] = self.nsig
        if self.sample is not None:
            d["sample"] = self.sample
        return d


def chunks(lo, hi, size):
    out = []
    while lo < hi:
        out.append((lo, min(hi, lo + size)))
        lo += size
    return out
