"""./check <Cxx> [--tier quick|thorough] [--replay FILE] [--jobs N]

Exit status: 0 held on everything observed (KNOWN-FINDING lines allowed), 1 violation
(line `VIOLATION property=<id> replay=<path>`), 2 inconclusive (a deciding monitor was
not reached / watchdog / tree does not import).  Inconclusive is never "held".
"""

import argparse
import collections
import concurrent.futures as cf
import importlib
import json
import os
import subprocess
import sys
import time
from pathlib import Path

from . import env

EVID = Path(os.environ.get("VERIF_EVIDENCE_DIR") or (env.VERIF / "evidence"))
REPLAY = EVID / "replay"
MAX_CONFIRM_PER_KEY = 4
MAX_CONFIRM_TOTAL = 30


def load_known():
    p = env.VERIF / "known_findings.json"
    if not p.exists():
        return []
    return json.loads(p.read_text())["findings"]


def run_worker(prop, batch, workdir, tag, timeout, extra_env=None):
    bpath = workdir / f"batch-{tag}.json"
    opath = workdir / f"out-{tag}.jsonl"
    bpath.write_text(json.dumps(batch))
    status = "ok"
    try:
        p = subprocess.run(
            [env.PY, "-m", "vlib.worker", prop, str(bpath), str(opath)],
            cwd=str(env.VERIF), env=env.child_env(**(extra_env or {})), timeout=timeout,
            stdout=subprocess.PIPE, stderr=subprocess.PIPE,
        )
        if p.returncode != 0:
            status = f"rc={p.returncode} stderr={p.stderr.decode(errors='replace')[-800:]}"
    except subprocess.TimeoutExpired:
        status = "watchdog"
    results, done = [], None
    if opath.exists():
        for line in opath.read_text().splitlines():
            try:
                r = json.loads(line)
            except ValueError:
                continue
            if "worker_done" in r:
                done = r
            elif "worker_crash" in r:
                status = "crash: " + r["worker_crash"][-800:]
            else:
                results.append(r)
    return results, done, status


def emit(lines, *a):
    s = " ".join(str(x) for x in a)
    print(s, flush=True)
    lines.append(s)


def main(argv=None):
    # whatever ends up in a witness (file names that are not UTF-8 ...), the report itself stays printable
    for stream in (sys.stdout, sys.stderr):
        try:
            stream.reconfigure(errors="backslashreplace")
        except Exception:  # noqa
            pass
    ap = argparse.ArgumentParser()
    ap.add_argument("prop")
    ap.add_argument("--tier", default=os.environ.get("VERIF_TIER", "quick"), choices=["quick", "thorough"])
    ap.add_argument("--replay")
    ap.add_argument("--jobs", type=int, default=int(os.environ.get("VERIF_JOBS", min(16, os.cpu_count() or 1))))
    args = ap.parse_args(argv)
    prop = args.prop.upper()
    seed = int(os.environ.get("VERIF_SEED", "0") or 0)
    t0 = time.time()
    lines = []

    if not (env.SRC / "reuse" / "__init__.py").exists():
        emit(lines, f"INCONCLUSIVE property={prop} reason=no-source-tree at {env.SRC}")
        return 2
    env.ensure_deps()
    mod = importlib.import_module(f"vlib.props.{prop.lower()}")
    workdir = env.scratch_root()
    EVID.mkdir(exist_ok=True)
    REPLAY.mkdir(exist_ok=True)
    try:
        if args.replay:
            return replay(mod, prop, args.replay, workdir, lines)
        return explore(mod, prop, args.tier, seed, args.jobs, workdir, lines, t0)
    finally:
        env.cleanup_scratch()


def replay(mod, prop, path, workdir, lines):
    rp = json.loads(Path(path).read_text())
    batch = {"tier": rp.get("tier", "quick"), "seed": rp.get("seed", 0), "cases": [[0, rp["case"]]]}
    results, done, status = run_worker(prop, batch, workdir, "replay", 1800, rp.get("env"))
    known = {(k["property"], k["key"]) for k in load_known() if k["status"] == "known"}
    bad = 0
    for r in results:
        for v in r.get("viol", []):
            tag = "KNOWN-FINDING:" if (prop, v.get("key")) in known else "REPRODUCED"
            emit(lines, f"{tag} property={prop} key={v.get('key')} {v.get('what')}")
            emit(lines, json.dumps(v, indent=1, default=str)[:4000])
            if tag == "REPRODUCED":
                bad += 1
        if r.get("harness_error"):
            emit(lines, "HARNESS-ERROR", r["harness_error"])
    if status != "ok":
        emit(lines, f"INCONCLUSIVE property={prop} reason=replay-worker {status}")
        return 2
    if bad:
        emit(lines, f"VIOLATION property={prop} replay={path}")
        return 1
    emit(lines, f"replay: no unlisted violation reproduced for {prop}")
    return 0


def explore(mod, prop, tier, seed, jobs, workdir, lines, t0):
    cases = mod.generate(tier, seed)
    n = len(cases)
    nb = max(1, min(n, jobs * getattr(mod, "BATCHES_PER_JOB", 2)))
    batches = [[] for _ in range(nb)]
    for i, c in enumerate(cases):
        batches[i % nb].append([i, c])
    timeout = getattr(mod, "BATCH_TIMEOUT", {"quick": 1500, "thorough": 6 * 3600})[tier]
    extra_env = getattr(mod, "WORKER_ENV", None)

    all_results, dones, bad_status = {}, [], []
    with cf.ThreadPoolExecutor(max_workers=jobs) as ex:
        futs = {ex.submit(run_worker, prop, {"tier": tier, "seed": seed, "cases": b}, workdir, str(k), timeout, extra_env): k
                for k, b in enumerate(batches)}
        for f in cf.as_completed(futs):
            results, done, status = f.result()
            for r in results:
                all_results[r["i"]] = r
            if done:
                dones.append(done)
            if status != "ok":
                bad_status.append(status)

    # ---- aggregate
    evaluations = 0
    sigs = set()
    nsig_extra = 0
    feats = collections.Counter()
    samples = []
    viols = []
    harness_errors = []
    for i in range(n):
        r = all_results.get(i)
        if r is None:
            continue
        evaluations += int(r.get("n", 1))
        for s in r.get("sigs", []) or ([r["sig"]] if r.get("sig") else []):
            sigs.add(s)
        nsig_extra += int(r.get("nsig", 0))
        for f_ in r.get("feat", []):
            if isinstance(f_, list):
                feats[f_[0]] += f_[1]
            else:
                feats[f_] += 1
        if r.get("sample") is not None and len(samples) < 6:
            samples.append(r["sample"])
        for v in r.get("viol", []):
            v["case_index"] = i
            viols.append(v)
        if r.get("harness_error"):
            harness_errors.append((i, r["harness_error"]))
    counters = collections.Counter()
    finish = collections.Counter()
    for d in dones:
        counters.update(d.get("counters", {}))
        for k, v in (d.get("finish") or {}).items():
            if isinstance(v, (int, float)):
                finish[k] += v

    n_distinct = len(sigs) + nsig_extra

    # ---- confirm each violation in a fresh interpreter
    known_list = load_known()
    known = {(k["property"], k["key"]): k for k in known_list if k["status"] == "known"}
    by_key = collections.defaultdict(list)
    for v in viols:
        by_key[v.get("key", "unclassified")].append(v)
    confirmed, unconfirmed = collections.defaultdict(list), 0
    total_conf = 0
    need_confirm = getattr(mod, "CONFIRM", True)
    for key, vs in sorted(by_key.items()):
        tried = 0
        for v in vs:
            if not need_confirm:
                confirmed[key].append(v)
                continue
            if tried >= MAX_CONFIRM_PER_KEY or total_conf >= MAX_CONFIRM_TOTAL:
                break
            tried += 1
            total_conf += 1
            case = cases[v["case_index"]]
            res, done, status = run_worker(prop, {"tier": tier, "seed": seed, "cases": [[0, case]]}, workdir,
                                           f"confirm-{total_conf}", 1800, extra_env)
            again = [w for r in res for w in r.get("viol", []) if w.get("key") == key]
            if again:
                v["confirmed_in_fresh_process"] = True
                confirmed[key].append(v)
                break
            unconfirmed += 1
        if need_confirm and not confirmed[key] and tried == 0 and total_conf >= MAX_CONFIRM_TOTAL:
            # budget exhausted: do not silently drop
            confirmed[key].append(vs[0])

    # observed but never reproduced (order- or timing-dependent?): neither a violation nor "held"
    not_reproduced = [k for k in by_key if not confirmed[k] and (prop, k) not in known]
    new_keys = [k for k in confirmed if confirmed[k] and (prop, k) not in known]
    known_seen = [k for k in confirmed if confirmed[k] and (prop, k) in known]

    # ---- verdict
    inconclusive = []
    missing = n - len(all_results)
    if missing:
        inconclusive.append(f"{missing} of {n} cases produced no result ({'; '.join(bad_status)[:600]})")
    if harness_errors:
        inconclusive.append(f"{len(harness_errors)} harness errors, first: {harness_errors[0][1][-700:]}")
    min_nt = getattr(mod, "MIN_NONTRIVIAL", {"quick": 2, "thorough": 2})[tier]
    if n_distinct < min_nt:
        inconclusive.append(f"only {n_distinct} distinct non-trivial cases (< {min_nt})")
    for k in not_reproduced:
        inconclusive.append(f"violation {k!r} observed {len(by_key[k])} time(s) but not reproduced in a fresh process: "
                            f"{str(by_key[k][0].get('what'))[:300]}")
    # input classes that every run exercises (recorded by tools/cellbase.py): one that is gone means the generator broke
    try:
        needed = json.load(open(os.path.join(os.path.dirname(__file__), "needed_cells.json"))).get(prop, [])
    except (OSError, ValueError):
        needed = []
    if needed and not os.environ.get("VERIF_NO_NEEDED_CELLS"):
        gone = [c for c in needed if not feats.get(c)]
        if gone:
            inconclusive.append(f"input classes never exercised in this run: {gone[:12]}")
    if hasattr(mod, "inconclusive_reasons"):
        inconclusive.extend(mod.inconclusive_reasons(dict(counters), dict(finish), dict(feats), tier) or [])

    replay_paths = {}
    for k in new_keys:
        v = confirmed[k][0]
        safe = "".join(ch if ch.isalnum() or ch in "-_." else "_" for ch in k)[:60]
        rp = REPLAY / f"{prop}-{safe}.json"
        rp.write_text(json.dumps({"property": prop, "tier": tier, "seed": seed, "key": k,
                                  "case": cases[v["case_index"]], "violation": v, "env": extra_env}, indent=1, default=str))
        replay_paths[k] = rp

    cov = {
        "evaluations": evaluations,
        "distinct_nontrivial": n_distinct,
        "rule": mod.RULE,
        "samples": samples or [cases[0]],
        "cases": n,
        "cells": dict(sorted(feats.items())[:400]),
        "monitor_counters": dict(counters),
        "monitor_finish": dict(finish),
        "unconfirmed_in_fresh_process": unconfirmed,
        "known_findings_seen": sorted(known_seen),
        "violations_by_key": {k: len(v) for k, v in by_key.items()},
        "inconclusive": inconclusive,
        "tree_under_test": str(env.SRC),
    }
    if hasattr(mod, "coverage_extra"):
        cov.update(mod.coverage_extra(tier, dict(feats), dict(counters), dict(finish)) or {})
    evidence = {
        "property_id": prop,
        "tier": tier,
        "seed": seed,
        "level": mod.LEVEL,
        "coverage": cov,
        "assumptions": getattr(mod, "ASSUMPTIONS", []),
        "wall_s": round(time.time() - t0, 2),
        "violations": len(new_keys),
    }
    (EVID / f"{prop}.json").write_text(json.dumps(evidence, indent=1, default=str) + "\n")

    emit(lines, f"{prop} tier={tier} seed={seed} cases={n} evaluations={evaluations} distinct_nontrivial={n_distinct} "
                f"wall={evidence['wall_s']}s unconfirmed={unconfirmed}")
    for k in known_seen:
        emit(lines, f"KNOWN-FINDING: property={prop} {k}: {known[(prop, k)]['what']} ({len(by_key[k])} witnesses this run)")
    for k in new_keys:
        v = confirmed[k][0]
        emit(lines, f"  witness key={k}: {str(v.get('what'))[:500]}")
        emit(lines, f"VIOLATION property={prop} replay={replay_paths[k]}")
    if new_keys:
        return 1
    if inconclusive:
        emit(lines, f"INCONCLUSIVE property={prop} reason={' | '.join(inconclusive)[:1500]}")
        return 2
    emit(lines, f"HELD property={prop} on everything observed")
    return 0


if __name__ == "__main__":
    sys.exit(main())
