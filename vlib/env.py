"""Environment: which tree is under test, scratch space, import of the real code."""

import os
import shutil
import sys
import tempfile
from pathlib import Path

VERIF = Path(__file__).resolve().parent.parent
REPO = Path(os.environ.get("VERIF_REPO", "/repo")).resolve()
SRC = REPO / "src"
DEPS = VERIF / ".deps"
PY = "/venv/bin/python"

_SCRATCH = None


def scratch_root() -> Path:
    """Per-process scratch directory on tmpfs (never under /repo or /verif)."""
    global _SCRATCH
    if _SCRATCH is None:
        base = "/dev/shm" if os.access("/dev/shm", os.W_OK) else None
        _SCRATCH = Path(tempfile.mkdtemp(prefix=f"reuse-verif.{os.getpid()}.", dir=base))
    return _SCRATCH


def cleanup_scratch() -> None:
    global _SCRATCH
    if _SCRATCH is not None:
        shutil.rmtree(_SCRATCH, ignore_errors=True)
        _SCRATCH = None


def child_env(**extra) -> dict:
    env = dict(os.environ)
    env["PYTHONPATH"] = str(VERIF)
    env["PYTHONDONTWRITEBYTECODE"] = "1"
    env.setdefault("PYTHONHASHSEED", "0")
    env["LC_ALL"] = "C"
    env["LANGUAGE"] = ""
    env["REUSE_VERIF"] = "1"
    env["VERIF_REPO"] = str(REPO)
    env.pop("_SUPPRESS_DEP5_WARNING", None)
    for k, v in extra.items():
        if v is None:
            env.pop(k, None)
        else:
            env[k] = str(v)
    return env


def import_reuse():
    """Import the real code from the tree under test and make sure that is what we got."""
    if str(SRC) not in sys.path:
        sys.path.insert(0, str(SRC))
    os.environ["LC_ALL"] = "C"
    os.environ["LANGUAGE"] = ""
    import reuse  # noqa

    f = Path(reuse.__file__).resolve()
    if SRC not in f.parents:
        raise RuntimeError(f"reuse imported from {f}, expected below {SRC}")
    return reuse


def ensure_deps() -> bool:
    """icontract beside the repo's interpreter (offline wheelhouse); at the END of sys.path."""
    if not (DEPS / "icontract").is_dir():
        import subprocess

        subprocess.run(
            [PY, "-m", "pip", "install", "-q", "--no-index", "--find-links",
             "/opt/veriftools/wheels", "--target", str(DEPS), "icontract"],
            stdout=subprocess.DEVNULL, stderr=subprocess.DEVNULL, check=False,
            env={**os.environ, "PIP_NO_INDEX": "1"},
        )
    if (DEPS / "icontract").is_dir():
        if str(DEPS) not in sys.path:
            sys.path.append(str(DEPS))
        return True
    return False
