"""Batch worker: a fresh interpreter that runs cases of one property against the real code.

usage: python -m vlib.worker <Cxx> <batch.json> <out.jsonl>
"""

import importlib
import json
import os
import sys
import time
import traceback


class Ctx:
    def __init__(self, tier, seed, prop):
        self.tier = tier
        self.seed = seed
        self.prop = prop
        self.scratch = None
        self.counters = {}
        self.state = {}

    def count(self, key, n=1):
        self.counters[key] = self.counters.get(key, 0) + n


def main(argv):
    prop, batch_path, out_path = argv[:3]
    from . import env

    env.import_reuse()
    with open(batch_path) as fp:
        batch = json.load(fp)
    mod = importlib.import_module(f"vlib.props.{prop.lower()}")
    ctx = Ctx(batch["tier"], batch["seed"], prop)
    ctx.scratch = env.scratch_root()
    rc = 0
    with open(out_path, "a", buffering=1) as out:
        try:
            if hasattr(mod, "setup"):
                mod.setup(ctx)
            for idx, case in batch["cases"]:
                t0 = time.time()
                try:
                    res = mod.run_case(case, ctx) or {}
                except Exception:
                    res = {"harness_error": traceback.format_exc()[-2000:]}
                res["i"] = idx
                res["t"] = round(time.time() - t0, 4)
                out.write(json.dumps(res, default=str) + "\n")
            fin = mod.finish(ctx) if hasattr(mod, "finish") else {}
            out.write(json.dumps({"worker_done": True, "counters": ctx.counters, "finish": fin,
                                  "reuse_file": sys.modules["reuse"].__file__}, default=str) + "\n")
        except BaseException:
            out.write(json.dumps({"worker_crash": traceback.format_exc()[-3000:]}) + "\n")
            rc = 3
        finally:
            os.chdir("/")
            env.cleanup_scratch()
    return rc


if __name__ == "__main__":
    sys.exit(main(sys.argv[1:]))
