"""Monitors applied from outside the code under test.

M-fs    audit-hook log of file-system mutations (and read-open log on request)
M-fault failpoints: the same hook may raise from an `open` event
M-snap  recursive snapshot of a tree
M-exc   in-process invocation of the real CLI with escaping exceptions observed
M-con   recording contracts (icontract) re-bound over the real functions
"""

import hashlib
import logging
import os
import stat
import sys
import traceback
from pathlib import Path

# --------------------------------------------------------------------------
# M-fs / M-fault

_WRITE_FLAGS = os.O_WRONLY | os.O_RDWR | os.O_CREAT | os.O_TRUNC | os.O_APPEND
_MUT_EVENTS = {
    "os.remove", "os.rename", "os.mkdir", "os.rmdir", "os.truncate", "os.chmod",
    "os.chown", "os.utime", "os.link", "os.symlink", "shutil.copyfile",
    "shutil.move", "shutil.rmtree", "shutil.copymode", "shutil.copystat",
    "tempfile.mkstemp", "tempfile.mkdtemp",
}


class FsMonitor:
    """One per process; `begin()` / `end()` bracket an observed command."""

    def __init__(self):
        self.active = False
        self.events = []
        self.reads = []
        self.log_reads = False
        self.fail_open = {}  # abs path -> exception factory (read opens)
        self.fail_write = {}  # abs path -> exception factory (write opens)
        self.on_open = None  # callback(path, is_write) for vanish/replace faults
        self.installed = False
        self.seq = 0

    def install(self):
        if not self.installed:
            sys.addaudithook(self._hook)
            self.installed = True

    def begin(self, log_reads=False):
        self.events = []
        self.reads = []
        self.log_reads = log_reads
        self.active = True

    def end(self):
        self.active = False
        ev, self.events = self.events, []
        return ev

    def _abs(self, p, dir_fd=None):
        try:
            if isinstance(p, bytes):
                p = os.fsdecode(p)
            if isinstance(p, int):
                return f"<fd {p}>"
            p = os.fspath(p)
            if isinstance(p, bytes):
                p = os.fsdecode(p)
            return os.path.abspath(p)
        except Exception:  # pragma: no cover
            return repr(p)

    def _hook(self, event, args):
        if not self.active:
            return
        if event == "open":
            path, mode, flags = args
            if isinstance(path, int):
                return
            ap = self._abs(path)
            is_write = bool(flags is not None and (flags & _WRITE_FLAGS)) or (
                isinstance(mode, str) and any(c in mode for c in "wax+")
            )
            if is_write:
                self.seq += 1
                self.events.append({"seq": self.seq, "pid": os.getpid(), "ev": "open-w", "path": ap, "flags": flags})
            elif self.log_reads:
                self.reads.append(ap)
            cb = self.on_open
            if cb is not None:
                self.active = False
                try:
                    cb(ap, is_write)
                finally:
                    self.active = True
            fac = self.fail_open.get(ap)
            if fac is not None and not is_write:
                exc = fac(ap)   # a factory may return None: "not this time" (e.g. spare the content sniffing, hit the next read)
                if exc is not None:
                    raise exc
            fac = self.fail_write.get(ap)
            if fac is not None and is_write:
                raise fac(ap)
        elif event in _MUT_EVENTS:
            self.seq += 1
            paths = [self._abs(a) for a in args[:2] if isinstance(a, (str, bytes, os.PathLike))]
            if event in ("shutil.copyfile", "shutil.copymode", "shutil.copystat", "os.link", "os.symlink") and len(paths) > 1:
                paths = [paths[1]]  # only the destination is mutated; the first argument is merely read / pointed to
            self.events.append({"seq": self.seq, "pid": os.getpid(), "ev": event, "path": paths[0] if paths else None,
                                "path2": paths[1] if len(paths) > 1 else None})


FS = FsMonitor()


def eacces(path):
    return PermissionError(13, "Permission denied (injected)", path)


# --------------------------------------------------------------------------
# M-snap


def snapshot(root, with_mtime=True, with_ctime=False) -> dict:
    """{relpath: (type, size, mode, mtime_ns, sha1 | link target)} for everything below root."""
    root = str(root)
    out = {}
    for dirpath, dirnames, filenames in os.walk(root, followlinks=False):
        for name in dirnames + filenames:
            full = os.path.join(dirpath, name)
            rel = os.path.relpath(full, root)
            try:
                st = os.lstat(full)
            except OSError:
                continue
            if stat.S_ISLNK(st.st_mode):
                out[rel] = ("l", 0, 0, 0, os.readlink(full))
            elif stat.S_ISDIR(st.st_mode):
                out[rel] = ("d", 0, stat.S_IMODE(st.st_mode), 0, "")
            elif stat.S_ISREG(st.st_mode):
                try:
                    with open(full, "rb") as fp:
                        h = hashlib.sha1(fp.read()).hexdigest()
                except OSError:
                    h = "?"
                out[rel] = ("f", st.st_size, stat.S_IMODE(st.st_mode), st.st_mtime_ns if with_mtime else 0, h) + (
                    (st.st_ctime_ns,) if with_ctime else ())
            else:
                out[rel] = ("o", 0, stat.S_IMODE(st.st_mode), 0, "")
    return out


def snap_diff(before: dict, after: dict, ignore_prefixes=()) -> dict:
    """{relpath: 'added'|'removed'|'changed'|'touched'}"""
    diff = {}
    for rel in set(before) | set(after):
        if any(rel == p or rel.startswith(p + "/") for p in ignore_prefixes):
            continue
        b, a = before.get(rel), after.get(rel)
        if b is None:
            diff[rel] = "added"
        elif a is None:
            diff[rel] = "removed"
        elif b != a:
            if b[0] == a[0] and b[4] == a[4] and b[1] == a[1] and b[2] == a[2]:
                diff[rel] = "touched"
            else:
                diff[rel] = "changed"
    return diff


# --------------------------------------------------------------------------
# M-exc : the real CLI, in process


class CliResult:
    __slots__ = ("exit_code", "stdout", "stderr", "exc", "exc_type", "exc_tb")

    def __init__(self, exit_code, stdout, stderr, exc):
        self.exit_code = exit_code
        self.stdout = stdout
        self.stderr = stderr
        self.exc = exc
        self.exc_type = type(exc).__name__ if exc is not None else None
        self.exc_tb = None

    @property
    def escaped(self):
        """An exception other than SystemExit left main()."""
        return self.exc is not None and not isinstance(self.exc, SystemExit)

    def brief(self):
        return {"exit": self.exit_code, "exc": self.exc_type, "stdout": self.stdout[-600:], "stderr": self.stderr[-600:]}


def _reset_process_state():
    # reuse configures logging once, binding the handler to the sys.stderr of that moment.
    lg = logging.getLogger("reuse")
    for h in list(lg.handlers):
        lg.removeHandler(h)
    os.environ.pop("_SUPPRESS_DEP5_WARNING", None)
    import warnings

    warnings.resetwarnings()
    warnings.simplefilter("ignore")


def run_cli(args, cwd=None, env=None) -> CliResult:
    """Invoke reuse.cli.main.main(args) exactly as the repository's own CLI tests do."""
    from click.testing import CliRunner

    import reuse.cli.main as rmain

    _reset_process_state()
    old = os.getcwd()
    if cwd is not None:
        os.chdir(cwd)
    try:
        runner = CliRunner()
        res = runner.invoke(rmain.main, [str(a) for a in args], catch_exceptions=True, env=env)
    finally:
        os.chdir(old)
        _reset_process_state()
    exc = res.exception
    out = CliResult(res.exit_code, res.stdout, res.stderr, exc)
    if exc is not None and not isinstance(exc, SystemExit) and res.exc_info:
        out.exc_tb = "".join(traceback.format_exception(*res.exc_info))[-3000:]
    return out


# --------------------------------------------------------------------------
# M-con : recording contracts


class Contracts:
    """Wrap real functions with icontract.ensure(recording condition) and re-bind every
    reference that `is` the original in every loaded reuse.* module."""

    def __init__(self):
        self.evals = {}
        self.records = {}
        self.skipped = []
        self._bound = []

    def attach(self, module_name, func_name, condition, cls_name=None):
        """condition(args: dict incl. `result`) -> list of violation dicts (may be empty)."""
        import importlib
        import inspect

        try:
            import icontract
        except Exception:
            icontract = None
        key = f"{module_name}.{cls_name + '.' if cls_name else ''}{func_name}"
        try:
            mod = importlib.import_module(module_name)
            holder = getattr(mod, cls_name) if cls_name else mod
            raw = inspect.getattr_static(holder, func_name)
            orig = getattr(holder, func_name)
        except Exception:
            self.skipped.append(key)
            return False
        self.evals[key] = 0
        self.records[key] = []
        me = self

        is_cm = isinstance(raw, classmethod)
        is_sm = isinstance(raw, staticmethod)
        target = raw.__func__ if (is_cm or is_sm) else raw
        sig = inspect.signature(target)

        def _post(**kw):
            me.evals[key] += 1
            try:
                v = condition(kw)
                if v:
                    me.records[key].extend(v)
            except Exception as e:  # the monitor must never disturb the run
                me.records[key].append({"key": "monitor-error", "what": repr(e)})
            return True

        wrapped = None
        if icontract is not None:
            # named condition function with the argument names of the target + result
            params = [p for p in sig.parameters.values() if p.kind in (p.POSITIONAL_OR_KEYWORD, p.KEYWORD_ONLY)]
            names = [p.name for p in params] + ["result"]
            src = "def _cond({0}):\n    return _post({1})\n".format(
                ", ".join(names), ", ".join(f"{n}={n}" for n in names))
            ns = {"_post": _post}
            exec(src, ns)  # noqa: S102
            try:
                wrapped = icontract.ensure(ns["_cond"], error=AssertionError)(target)
            except Exception:
                wrapped = None
        if wrapped is None:
            import functools

            @functools.wraps(target)
            def wrapped(*a, **k):
                r = target(*a, **k)
                try:
                    ba = sig.bind(*a, **k)
                    ba.apply_defaults()
                    kw = {n: v for n, v in ba.arguments.items()}
                except Exception:
                    kw = {}
                kw["result"] = r
                _post(**kw)
                return r

        new = classmethod(wrapped) if is_cm else staticmethod(wrapped) if is_sm else wrapped
        setattr(holder, func_name, new)
        self._bound.append((holder, func_name, raw))
        if not cls_name:
            # re-bind early `from .x import f` references
            for name, m in list(sys.modules.items()):
                if not name.startswith("reuse") or m is None or m is mod:
                    continue
                for attr, val in list(vars(m).items()):
                    if val is orig:
                        setattr(m, attr, wrapped)
                        self._bound.append((m, attr, orig))
        return True

    def detach(self):
        for holder, name, orig in reversed(self._bound):
            try:
                setattr(holder, name, orig)
            except Exception:
                pass
        self._bound = []

    def drain(self):
        out = []
        for k, recs in self.records.items():
            for r in recs:
                r = dict(r)
                r.setdefault("contract", k)
                out.append(r)
            self.records[k] = []
        return out


# --------------------------------------------------------------------------
# M-fault : "the file vanishes right after its K-th touch" (source-free failpoint on pathlib)


class TouchFault:
    """While active, counts pathlib.Path touches (is_file, is_dir, is_symlink, exists, stat, lstat, open) of one victim path and
    removes the victim (or turns it into a directory) right after the K-th of them."""

    METHODS = ("is_file", "is_dir", "is_symlink", "exists", "stat", "lstat", "open")

    def __init__(self, victim, k, becomes_dir=False):
        self.victim = os.path.abspath(str(victim))
        self.k = k
        self.becomes_dir = becomes_dir
        self.count = 0
        self.fired = False
        self._orig = {}

    def _wrap(self, name):
        import pathlib

        orig = getattr(pathlib.Path, name)
        fault = self

        def wrapper(self_, *a, **kw):
            hit = False
            try:
                hit = os.path.abspath(str(self_)) == fault.victim
            except Exception:
                pass
            try:
                return orig(self_, *a, **kw)
            finally:
                if hit and not fault.fired:
                    fault.count += 1
                    if fault.count >= fault.k:
                        fault.fired = True
                        try:
                            os.unlink(fault.victim)
                            if fault.becomes_dir:
                                os.mkdir(fault.victim)
                        except OSError:
                            pass

        return orig, wrapper

    def __enter__(self):
        import pathlib

        for name in self.METHODS:
            orig, wrapper = self._wrap(name)
            self._orig[name] = orig
            setattr(pathlib.Path, name, wrapper)
        return self

    def __exit__(self, *a):
        import pathlib

        for name, orig in self._orig.items():
            setattr(pathlib.Path, name, orig)
        return False
