"""Helpers shared by the annotate properties (C07-C11): file-type tables introspected from the
code under test (they are the input domain, not the oracle), bodies, templates, read-back."""

import json
import os

from . import trees
from .monitors import run_cli


def type_table():
    """[(kind, key, file name, style shorthand or class name, can_single, can_multi, uncommentable)] for every entry
    of the extension and file-name tables."""
    from reuse import comment

    out = []
    for ext, cls in comment.EXTENSION_COMMENT_STYLE_MAP.items():
        out.append(("ext", ext, "file" + ext, cls))
    for name, cls in comment.FILENAME_COMMENT_STYLE_MAP.items():
        out.append(("name", name, name, cls))
    res = []
    for kind, key, fname, cls in out:
        res.append({
            "kind": kind, "key": key, "fname": fname, "cls": cls.__name__, "short": getattr(cls, "SHORTHAND", "") or cls.__name__,
            "single": bool(cls.SINGLE_LINE), "multi": bool(cls.MULTI_LINE[0] and cls.MULTI_LINE[2]),
            "uncommentable": cls.__name__ == "UncommentableCommentStyle", "empty": cls.__name__ == "EmptyCommentStyle",
            "shebangs": list(cls.SHEBANGS),
        })
    return res


def style_names():
    from reuse import comment

    return sorted(comment.NAME_STYLE_MAP)


TEMPLATES = {
    # name -> (file name, text, faithful?, drops)
    "custom": ("custom.jinja2",
               "Header of the project\n\n{% for copyright_line in copyright_lines %}\n{{ copyright_line }}\n{% endfor %}\n"
               "{% for contributor_line in contributor_lines %}\nSPDX-FileContributor: {{ contributor_line }}\n{% endfor %}\n\n"
               "{% for expression in spdx_expressions %}\nSPDX-License-Identifier: {{ expression }}\n{% endfor %}\n\nTrailing prose.\n"),
    # the same text under file names that are not *.jinja2: they are named in full on the command line
    "custom-html": ("web.html", None),
    "custom-xml": ("notice.xml", None),
    "custom-txt": ("plain.txt", None),
    "nocontrib": ("nocontrib.jinja2",
                  "{% for copyright_line in copyright_lines %}\n{{ copyright_line }}\n{% endfor %}\n\n"
                  "{% for expression in spdx_expressions %}\nSPDX-License-Identifier: {{ expression }}\n{% endfor %}\n"),
    "commented": ("precom.commented.jinja2",
                  "# Pre-commented header\n#\n{% for copyright_line in copyright_lines %}\n# {{ copyright_line }}\n{% endfor %}\n"
                  "{% for contributor_line in contributor_lines %}\n# SPDX-FileContributor: {{ contributor_line }}\n{% endfor %}\n#\n"
                  "{% for expression in spdx_expressions %}\n# SPDX-License-Identifier: {{ expression }}\n{% endfor %}\n"),
    "droplic": ("droplic.jinja2", "{% for copyright_line in copyright_lines %}\n{{ copyright_line }}\n{% endfor %}\n"),
    "dropcop": ("dropcop.jinja2", "{% for expression in spdx_expressions %}\nSPDX-License-Identifier: {{ expression }}\n{% endfor %}\n"),
    "dropboth": ("dropboth.jinja2", "Nothing but prose here.\n"),
    # loses the licences through a misspelt variable name (undefined names render as nothing)
    "misspelt": ("misspelt.jinja2", "{% for copyright_line in copyright_lines %}\n{{ copyright_line }}\n{% endfor %}\n"
                 "{% for expression in spdx_expresions %}\nSPDX-License-Identifier: {{ expression }}\n{% endfor %}\n"),
    # a template with a tag of its own: what it renders is more than what was requested
    "fixedtag": ("fixedtag.jinja2",
                 "SPDX-FileCopyrightText: 2015 ACME Template Corp\n{% for copyright_line in copyright_lines %}\n{{ copyright_line }}\n{% endfor %}\n\n"
                 "{% for expression in spdx_expressions %}\nSPDX-License-Identifier: {{ expression }}\n{% endfor %}\n"),
    # pre-commented templates that lose information: the read-back check must apply to them as well
    "droplic-commented": ("lossylic.commented.jinja2", "# header\n{% for copyright_line in copyright_lines %}\n# {{ copyright_line }}\n{% endfor %}\n"),
    "dropboth-commented": ("lossyboth.commented.jinja2", "# nothing but a commented line\n"),
}


def install_templates(root, names=None):
    d = os.path.join(str(root), ".reuse", "templates")
    os.makedirs(d, exist_ok=True)
    for n, (fname, text) in TEMPLATES.items():
        if text is None:
            text = TEMPLATES["custom"][1]
        if names is None or n in names:
            with open(os.path.join(d, fname), "w", encoding="utf-8") as fp:
                fp.write(text)


def template_arg(name):
    fname = TEMPLATES[name][0]
    return fname.split(".")[0] if fname.endswith(".jinja2") else fname


def read_back(root, relpaths=None):
    """{relpath: {"cop": set, "lic": set}} from `reuse lint --json` (contributors are not part of lint output)."""
    r = run_cli(["--no-multiprocessing", "--root", str(root), "lint", "--json"], cwd=str(root))
    if r.escaped or not r.stdout.strip():
        return None, r
    try:
        data = json.loads(r.stdout)
    except ValueError:
        return None, r
    out = {}
    for f in data["files"]:
        out[trees.norm_path(f["path"], root)] = {"cop": {c["value"] for c in f["copyrights"]},
                                                 "lic": {e["value"] for e in f["spdx_expressions"]}}
    return out, r


def read_contributors(path):
    """Contributors are not in lint --json; read them with the tool's own extractor on the header carrier."""
    import reuse.extract as ex

    p = str(path)
    if os.path.exists(p + ".license"):
        p = p + ".license"
    try:
        with open(p, "rb") as fp:
            return set(ex.extract_reuse_info(ex.decoded_text_from_binary(fp)).contributor_lines)
    except Exception:  # noqa
        return None


def carrier_bytes(path):
    """Bytes of the file and of its .license sibling (None when absent)."""
    out = []
    for p in (str(path), str(path) + ".license"):
        try:
            with open(p, "rb") as fp:
                out.append(fp.read())
        except OSError:
            out.append(None)
    return tuple(out)


def succeeded(r, before_bytes, path):
    """annotate wrote a header: exit 0 and either it says so or the carrier changed (skipped files exit 0 as well)."""
    return r.exit_code == 0 and ("Successfully changed header" in r.stdout or carrier_bytes(path) != before_bytes)


def carrier_of(path):
    p = str(path)
    return p + ".license" if os.path.exists(p + ".license") else p


def place(rng, root, files):
    """Where the command is run from and how root and files are spelled: -> (cwd, global args, [file args])."""
    root = str(root)
    files = [str(f) for f in files]
    r = rng.random()
    if r < 0.55:
        return root, ["--no-multiprocessing", "--root", root], files
    if r < 0.7:
        return root, ["--no-multiprocessing", "--root", "."], [os.path.relpath(f, root) for f in files]
    if r < 0.85:
        cwd = os.path.dirname(files[0]) if files else root
        return cwd, ["--no-multiprocessing", "--root", os.path.relpath(root, cwd)], [os.path.relpath(f, cwd) for f in files]
    cwd = os.path.dirname(root)
    return cwd, ["--no-multiprocessing", "--root", os.path.relpath(root, cwd)], [os.path.relpath(f, cwd) for f in files]
