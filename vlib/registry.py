"""What is claimed per property (source of MANIFEST.json)."""

CHECKS = {
    "C12": {
        "level": "exploration",
        "technique": "runtime monitoring: reference-scanner oracle on the real filter_ignore_block / extract_reuse_info / lint --json, recording contract in situ",
        "text": "every token sequence up to length 4 (quick) / 7 (thorough) in four renderings is run through the real filter and the real "
                "extractor and compared with an independent scanner; random longer sequences; a sample goes through `reuse lint --json` "
                "with an icontract post-condition on filter_ignore_block evaluated in situ. Exhaustive for the bounded token language only.",
        "note": "trusted: the reference scanner (12 lines), license_expression accepting LicenseRef- values; longer or differently "
                "tokenised texts are only sampled",
    },
}

CHECKS.update({
    "C01": {
        "level": "exploration",
        "technique": "runtime monitoring: specification-model oracle over generated project trees, real `reuse lint --json` in process (and through the real worker pool), EACCES failpoints from an audit hook",
        "text": "compliant-by-construction trees with 0-6 injected defects of ten kinds are linted by the real CLI; the eight issue "
                "collections, summary.compliant and the exit status are compared with an independent model of the specification "
                "computed from the generation recipe. 1 200 (quick) / 60 000 (thorough) trees; all defect pairs forced in thorough.",
        "note": "trusted: the spec model in vlib/trees.py; only plain forms of each dimension (own-line tags, exact-path tables); "
                "held on the executions produced, not a proof over all trees",
    },
    "C04": {
        "level": "exploration",
        "technique": "runtime monitoring: precedence-model oracle over an enumerated finite product of source configurations, observed in `reuse lint --json` items (value, source, source_type)",
        "text": "own information x .license sibling x chains of nested REUSE.toml levels: every cell with <= 2 levels (quick, 5 070) or 3 "
                "levels (thorough, 65 910) is built on disk and linted; the reported items must equal those the precedence model "
                "derives; two-table levels and dep5 sampled; dep5+REUSE.toml must be rejected.",
        "note": "trusted: the precedence model written from the statement; grey: contribution of REUSE.toml files outside an override "
                "(only presence of the override and absence of shadowed sources asserted)",
    },
    "C05": {
        "level": "exploration",
        "technique": "runtime monitoring: reference-NFA oracle (narrow/wide sandwich) on the real AnnotationsItem.matches, icontract post-condition during real lint runs",
        "text": "all globs up to length 4 (quick) / 6 (thorough) over {a . / * \\} against all paths up to length 5 / 6 over a six-letter "
                "alphabet, wildcard instantiations and random long globs over a wide alphabet; narrow(g,p) => impl => wide(g,p). "
                "Bounded path quantifier: language inclusion itself is a static analysis outside this technique family.",
        "note": "trusted: models/glob_ref.py; a defect whose shortest witness is longer than the bound and missed by the sampled paths "
                "is not seen; trailing lone backslash is grey",
    },
    "C06": {
        "level": "exploration",
        "technique": "runtime monitoring: set-algebra oracle over used/provided identifiers known from the recipe, observed in `reuse lint --json`",
        "text": "trees of ~45 identifiers each, every identifier assigned a (class, use, provision) cell; the five licence collections "
                "and used_licenses must equal the set algebra of the statement. Thorough sweeps the whole bundled SPDX list.",
        "note": "trusted: identifier classes from the bundled JSON data; grey cells listed in the evidence assumptions are not generated",
    },
    "C13": {
        "level": "exploration",
        "technique": "runtime monitoring: relational oracle - four lint formats, JSON summary vs JSON lists, and lint-file vs the restriction of lint, on one project state",
        "text": "multi-defect trees are linted as --json/--plain/--lines/--quiet/default and through lint-file over random subsets from "
                "three working directories; all views must agree per category and with the exit status. No model of the tool needed.",
        "note": "trusted: the parsers of the --plain / --lines wording; names with newline or ': ' not generated",
    },
    "C18": {
        "level": "exploration",
        "technique": "runtime monitoring: tag-value parser + truth-table equivalence + sha1 + cross-check with lint --json on the real `reuse spdx` output",
        "text": "the document of every generated tree is parsed; sections vs covered files, SPDXID uniqueness, one DESCRIBES each, "
                "SHA-1 of the bytes, identifiers and copyright lines vs lint, LicenseConcluded equivalent to the conjunction under all "
                "truth assignments, LicenseRef texts verbatim.",
        "note": "trusted: models/spdx_tv.py as stand-in for an SPDX validator; unreadable files and '</text>' inside licence texts not generated",
    },
})

CHECKS.update({
    "C02": {
        "level": "exploration",
        "technique": "runtime monitoring: authored-value oracle on the real decode -> extract pipeline and on `reuse lint --json` over files (4 KiB window, snippet marker)",
        "text": "every (comment style, form, tag kind, line ending) cell is rendered from labelled parts whose VALUE the generator knows; "
                "the real reader must return exactly those values; on-disk sample for the 4096-byte window, snippet markers and "
                "unparseable expressions. Two mechanisms of the pinned tree are listed as known findings.",
        "note": "trusted: canonical rendering of licence expressions; grey classes listed in the evidence are not generated",
    },
    "C03": {
        "level": "exploration",
        "technique": "runtime monitoring: covered-file model + `git check-ignore` as oracle for the examined sets of lint / spdx / lint-file / annotate -r",
        "text": "trees built from names on both sides of every exclusion rule (files, empty files, directories, symlinks), without VCS and "
                "in real Git repositories with .gitignore files, mixed tracking states, submodules and subprojects/, under all four "
                "option combinations; the set of files each command examines must equal the model's covered set.",
        "note": "trusted: the name+kind model, Git's own check-ignore; nested LICENSES/.reuse/subprojects are grey; other VCSs not installed",
    },
    "C07": {
        "level": "exploration",
        "technique": "runtime monitoring: success => exact read-back through the real linter, requested notices built independently; must-succeed classes required to succeed",
        "text": "every entry of the file-type tables (complete) and sampled option combinations are annotated by the real CLI and read back "
                "with `reuse lint --json` (contributors with the tool's extractor); information-dropping templates and holders "
                "ending in comment terminators must be refused.",
        "note": "trusted: models/notice.py (documented prefix table); --force-dot-license over an in-file header is a listed known finding",
    },
    "C08": {
        "level": "exploration",
        "technique": "runtime monitoring: labelled-line diff oracle on the bytes before/after `reuse annotate` (single change window)",
        "text": "bodies of uniquely labelled lines in every comment style, both modes, three line-ending conventions, with/without final "
                "newline, BOM, first-line declarations and existing headers; everything outside one change window must be byte-identical "
                "and the window may only hold the header, adjacent blank lines and the right-strip of the line above.",
        "note": "trusted: the window oracle; mixed line endings and own-style comments contiguous with a header are grey",
    },
    "C09": {
        "level": "exploration",
        "technique": "runtime monitoring: running model anchored on observations over command histories; icontract post-condition on create_header in situ",
        "text": "sequences of 2-6 / 2-12 annotate invocations with independent option draws per step; after every successful step the "
                "read-back must include the previous read-back plus the request (holders and year coverage under --merge-copyrights); "
                "failed and skipped steps must leave the bytes alone.",
        "note": "trusted: lint read-back as observation; two mechanisms listed as known findings",
    },
    "C10": {
        "level": "exploration",
        "technique": "runtime monitoring: byte equality after the 1st / 2nd / 5th identical invocation, header-block count",
        "text": "all file types x modes (complete in both tiers), all --style values, dot-license, templates, prefix/year options, several "
                "bodies; annotate twice and five times.",
        "note": "bodies free of other REUSE tags, as the property's quantifier says",
    },
    "C11": {
        "level": "fault_enumeration",
        "technique": "runtime monitoring with fault enumeration: tree snapshot + audit-hook mutation log + exit status over invocations with a chosen failing subset",
        "text": "invocations over 2-5 files where the recipe decides which must fail (cause x position x .license option x sibling); "
                "reported-failed files must be untouched, the rest processed, exit 1 iff a failure was reported, usage errors before "
                "any mutation event.",
        "note": "two layers: consistency with the tool's own report (any cause), and expected failures by cause",
    },
    "C16": {
        "level": "fault_enumeration",
        "technique": "runtime monitoring with fault enumeration: escaping-exception monitor (CliRunner exc_info), exit status and diagnostic over enumerated malformed configurations, hostile files and failpoints",
        "text": "key x TOML type table (complete), truncation of REUSE.toml / dep5 at every byte, byte flips, hostile covered files incl. "
                "EACCES / vanish / becomes-directory failpoints from an audit hook, hostile LICENSES/, broken templates, crossed with "
                "the subcommands; nothing but SystemExit may leave main().",
        "note": "three-class oracle (valid / definitely broken / grey); broken Jinja templates are a listed known finding",
    },
    "C20": {
        "level": "exploration",
        "technique": "runtime monitoring: (prefix, years, holder) oracle on the real make_copyright_line / merge_copyright_lines / reader and on annotate + lint round trips; icontract post-condition on merge in situ",
        "text": "complete product of holder classes x year forms x ten prefixes for building, random notice sets for merging, CLI round "
                "trips with --year x0/x1/x2 and --merge-copyrights.",
        "note": "holders containing notice-like tokens or starting with four digits are grey",
    },
})

CHECKS.update({
    "C14": {
        "level": "exploration",
        "technique": "runtime monitoring: schedule / order / hash-seed / cwd / root-spelling perturbation of real `reuse` processes, normalised outputs compared with a baseline run, task logs recording the interleavings seen",
        "text": "each tree is processed by real processes under sampled configurations (pool proxy fixing worker count and chunk size and "
                "injecting per-task delays, shuffled os.walk / glob listings, PYTHONHASHSEED, cwd, seven spellings of --root); every "
                "normalised lint / spdx output must equal the baseline's. The evidence counts distinct completion orders and "
                "task->pid assignments actually observed.",
        "note": "scheduling is perturbed, not enumerated; held on the interleavings produced",
    },
    "C15": {
        "level": "exploration",
        "technique": "runtime monitoring: audit-hook file-system mutation log + content/metadata snapshots of project and outside sentinel + strace -f cross-check on a sample",
        "text": "every subcommand with sampled options, alone and in sequences, on trees with outside-pointing symlinks, ignored files and "
                "read-only files; every mutation event and every snapshot difference must lie in the command's documented write set.",
        "note": ".git/index refreshed by the `git status` child is tolerated and reported; explicit symlink arguments to annotate are grey",
    },
    "C17": {
        "level": "exploration",
        "technique": "runtime monitoring: relational oracle - lint before vs after the real convert-dep5, python-debian matcher vs converted REUSE.toml matcher path by path, M-fs event order, injected write failure",
        "text": "all dep5 patterns up to length 3 / 5 against all normalised paths up to length 4 / 5; real trees with generated dep5 files; "
                "write-before-remove order seen in the audit log; ENOSPC injected on the REUSE.toml write must leave dep5 in place; "
                "refusal without dep5.",
        "note": "python-debian defines what a dep5 meant; two inexpressible cases ('?', '*/') are listed known findings",
    },
    "C19": {
        "level": "fault_enumeration",
        "technique": "runtime monitoring with fault enumeration: loopback HTTP stub with per-identifier outcome, snapshots of project / source / output directories, stub request log, follow-up lint",
        "text": "request sets x LICENSES/ states x cwd x VCS x --root x network outcome per identifier (200/404/500/closed/reset in mid-body) "
                "with the failure in every batch position; no existing file may change, nothing partial may remain, '+' and LicenseRef- "
                "never reach the network, exit status reflects failures, lint reports nothing missing after a successful --all.",
        "note": "the stub replaces the network; exceptions escaping on transfer faults are counted, only their consequences asserted",
    },
})

NOT_APPLICABLE = {}
