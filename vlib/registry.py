"""What is claimed per property (source of MANIFEST.json)."""

CHECKS = {
    "C12": {
        "level": "exploration",
        "technique": "runtime monitoring: reference-scanner oracle on the real filter_ignore_block / extract_reuse_info / lint --json, recording contract in situ",
        "text": "every token sequence up to length 4 (quick) / 6 (thorough) in four renderings is run through the real filter and the real "
                "extractor and compared with an independent scanner; random longer sequences; a sample goes through `reuse lint --json` "
                "with an icontract post-condition on filter_ignore_block evaluated in situ. Exhaustive for the bounded token language only.",
        "note": "trusted: the reference scanner (12 lines), license_expression accepting LicenseRef- values; longer or differently "
                "tokenised texts are only sampled",
    },
}

NOT_APPLICABLE = {}
