"""What is claimed per property (source of MANIFEST.json)."""

CHECKS = {
    "C12": {
        "level": "exploration",
        "technique": "runtime monitoring: reference-scanner oracle on the real filter_ignore_block / extract_reuse_info / lint --json, recording contract in situ",
        "text": "every token sequence up to length 4 (quick) / 6 (thorough) in four renderings is run through the real filter and the real "
                "extractor and compared with an independent scanner; random longer sequences; a sample goes through `reuse lint --json` "
                "with an icontract post-condition on filter_ignore_block evaluated in situ. Exhaustive for the bounded token language only.",
        "note": "trusted: the reference scanner (12 lines), license_expression accepting LicenseRef- values; longer or differently "
                "tokenised texts are only sampled",
    },
}

CHECKS.update({
    "C01": {
        "level": "exploration",
        "technique": "runtime monitoring: specification-model oracle over generated project trees, real `reuse lint --json` in process (and through the real worker pool), EACCES failpoints from an audit hook",
        "text": "compliant-by-construction trees with 0-6 injected defects of ten kinds are linted by the real CLI; the eight issue "
                "collections, summary.compliant and the exit status are compared with an independent model of the specification "
                "computed from the generation recipe. 400 (quick) / 25 000 (thorough) trees; all defect pairs forced in thorough.",
        "note": "trusted: the spec model in vlib/trees.py; only plain forms of each dimension (own-line tags, exact-path tables); "
                "held on the executions produced, not a proof over all trees",
    },
    "C04": {
        "level": "exploration",
        "technique": "runtime monitoring: precedence-model oracle over an enumerated finite product of source configurations, observed in `reuse lint --json` items (value, source, source_type)",
        "text": "own information x .license sibling x chains of nested REUSE.toml levels: every cell with <= 2 levels (quick, 5 070) or 3 "
                "levels (thorough, 65 910) is built on disk and linted; the reported items must equal those the precedence model "
                "derives; two-table levels and dep5 sampled; dep5+REUSE.toml must be rejected.",
        "note": "trusted: the precedence model written from the statement; grey: contribution of REUSE.toml files outside an override "
                "(only presence of the override and absence of shadowed sources asserted)",
    },
    "C05": {
        "level": "exploration",
        "technique": "runtime monitoring: reference-NFA oracle (narrow/wide sandwich) on the real AnnotationsItem.matches, icontract post-condition during real lint runs",
        "text": "all globs up to length 4 (quick) / 6 (thorough) over {a . / * \\} against all paths up to length 5 / 6 over a six-letter "
                "alphabet, wildcard instantiations and random long globs over a wide alphabet; narrow(g,p) => impl => wide(g,p). "
                "Bounded path quantifier: language inclusion itself is a static analysis outside this technique family.",
        "note": "trusted: models/glob_ref.py; a defect whose shortest witness is longer than the bound and missed by the sampled paths "
                "is not seen; trailing lone backslash is grey",
    },
    "C06": {
        "level": "exploration",
        "technique": "runtime monitoring: set-algebra oracle over used/provided identifiers known from the recipe, observed in `reuse lint --json`",
        "text": "trees of ~45 identifiers each, every identifier assigned a (class, use, provision) cell; the five licence collections "
                "and used_licenses must equal the set algebra of the statement. Thorough sweeps the whole bundled SPDX list.",
        "note": "trusted: identifier classes from the bundled JSON data; grey cells listed in the evidence assumptions are not generated",
    },
    "C13": {
        "level": "exploration",
        "technique": "runtime monitoring: relational oracle - four lint formats, JSON summary vs JSON lists, and lint-file vs the restriction of lint, on one project state",
        "text": "multi-defect trees are linted as --json/--plain/--lines/--quiet/default and through lint-file over random subsets from "
                "three working directories; all views must agree per category and with the exit status. No model of the tool needed.",
        "note": "trusted: the parsers of the --plain / --lines wording; names with newline or ': ' not generated",
    },
    "C18": {
        "level": "exploration",
        "technique": "runtime monitoring: tag-value parser + truth-table equivalence + sha1 + cross-check with lint --json on the real `reuse spdx` output",
        "text": "the document of every generated tree is parsed; sections vs covered files, SPDXID uniqueness, one DESCRIBES each, "
                "SHA-1 of the bytes, identifiers and copyright lines vs lint, LicenseConcluded equivalent to the conjunction under all "
                "truth assignments, LicenseRef texts verbatim.",
        "note": "trusted: models/spdx_tv.py as stand-in for an SPDX validator; unreadable files and '</text>' inside licence texts not generated",
    },
})

NOT_APPLICABLE = {}
