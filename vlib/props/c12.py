"""C12 Ignore blocks hide exactly what they enclose.

Oracle: an independent left-to-right scanner (blocks do not nest, stray end markers are
inert, an unterminated block runs to the end of the text).  Observed: the real
`filter_ignore_block`, the real `extract_reuse_info`, and `reuse lint --json` on files.
"""

import json
import os

from ..util import Res, chunks, rng_for, short_hash

ID = "C12"
LEVEL = "exploration"
RULE = ("token sequences over {start, end, licence tag, copyright tag, contributor tag, plain text, newline}: every "
        "sequence up to length N (N=4 quick, N=7 thorough) in 4 renderings (commented/bare x newline-/space-joined), plus "
        "seeded random sequences up to length 20; non-trivial = contains at least one marker and at least one tag; "
        "distinct = distinct (sequence, rendering)")
ASSUMPTIONS = ["licence values are LicenseRef- identifiers that license_expression parses",
               "when markers share a line with tags, the expected tag set is the real extractor applied to the "
               "reference-filtered text (only the filter is under test there)"]
MIN_NONTRIVIAL = {"quick": 1000, "thorough": 500000}

START = "REUSE-Ignore" + "Start"
END = "REUSE-Ignore" + "End"
TOKENS = ["S", "E", "L", "C", "B", "P", "N"]


def ref_filter(text):
    out, i = [], 0
    while True:
        s = text.find(START, i)
        if s < 0:
            out.append(text[i:])
            break
        out.append(text[i:s])
        e = text.find(END, s + len(START))
        if e < 0:
            break
        i = e + len(END)
    return "".join(out)


def seq_of(idx, length):
    seq = []
    for _ in range(length):
        seq.append(TOKENS[idx % 7])
        idx //= 7
    return seq


def render(seq, commented, sep):
    """Returns text and (when sep is newline) the expected tag sets from the recipe."""
    parts = []
    inside = False
    exp = {"lic": set(), "cop": set(), "con": set()}
    for k, t in enumerate(seq):
        pre = "# " if commented else ""
        if t == "S":
            parts.append(pre + START)
            inside = True
        elif t == "E":
            parts.append(pre + END)
            inside = False
        elif t == "L":
            v = f"LicenseRef-T{k}"
            parts.append(pre + "SPDX-License-Identifier: " + v)
            if not inside:
                exp["lic"].add(v)
        elif t == "C":
            v = f"SPDX-FileCopyrightText: 20{k:02d} Holder{k}" + (" Straße" if k % 2 else "")
            parts.append(pre + v)
            if not inside:
                exp["cop"].add(v)
        elif t == "B":
            v = f"Contrib{k}"
            parts.append(pre + "SPDX-FileContributor: " + v)
            if not inside:
                exp["con"].add(v)
        elif t == "P":
            # (also letters whose upper- / lower- / case-folded forms differ in length: offsets found in a folded copy are not offsets here)
            parts.append(pre + [f"plain{k} text", f"Groß & Weiß{k} ﬁnal İstanbul ǰ", f"plain{k} ßßßß"][k % 3])
        elif t == "N":
            parts.append("")
    return sep.join(parts), exp


def observed_sets(info):
    return {"lic": {str(e) for e in info.spdx_expressions}, "cop": set(info.copyright_lines),
            "con": set(info.contributor_lines)}


def classify(text, kind):
    if text.find(START) == 0:
        return "start-marker-at-offset-0"
    return kind


def check_text(text, exp, res, extract_mod, label):
    got_f = extract_mod.filter_ignore_block(text)
    want_f = ref_filter(text)
    res.n += 1
    if got_f != want_f:
        res.violation(classify(text, "filter-mismatch"), f"filter_ignore_block differs from the reference scanner ({label})",
                      text=text, got=got_f, want=want_f)
        return
    def _ex(t):
        try:
            return observed_sets(extract_mod.extract_reuse_info(t))
        except Exception as e:  # noqa
            return {"raised": {type(e).__name__}}

    got = _ex(text)
    if exp is None:
        # markers share a line with tags: the value of a tag is whatever follows it on the line, so the
        # expectation is the real extractor on the reference-filtered text (raising included).
        want = _ex(want_f)
    else:
        want = exp
    if got != want:
        res.violation(classify(text, "extract-mismatch"), f"tags read differ from the tags outside ignore blocks ({label})",
                      text=text, got={k: sorted(v) for k, v in got.items()}, want={k: sorted(v) for k, v in want.items()})
        return
    # the yes/no reading that annotate uses (--skip-existing, header search) goes by the same rule: ignored tags are no information
    has = getattr(extract_mod, "contains_reuse_info", None)
    if has is not None and "raised" not in want:
        try:
            said = bool(has(text))
        except Exception as e:  # noqa
            res.violation("contains-reuse-info-raises", f"contains_reuse_info raised {type(e).__name__} ({label})", text=text)
            return
        if said != any(want.values()):
            res.violation(classify(text, "contains-reuse-info-disagrees"), f"contains_reuse_info says {said} but the tags outside ignore blocks are "
                          f"{ {k: sorted(v) for k, v in want.items()} } ({label})", text=text)


def generate(tier, seed):
    N = 4 if tier == "quick" else 7
    cases = []
    for length in range(1, N + 1):
        for lo, hi in chunks(0, 7 ** length, 400):
            cases.append({"kind": "enum", "len": length, "lo": lo, "hi": hi})
    nrand = 5000 if tier == "quick" else 1000000
    for k, (lo, hi) in enumerate(chunks(0, nrand, 500)):
        cases.append({"kind": "rand", "k": k, "n": hi - lo})
    ndisk = 24 if tier == "quick" else 300
    for k in range(ndisk):
        cases.append({"kind": "disk", "k": k, "n": 15})
    for k in range(16 if tier == "quick" else 120):
        cases.append({"kind": "bigdisk", "k": k, "n": 24})
    # "any number of blocks may follow one another"
    for n in (2, 17, 64, 127, 128, 129, 130, 200, 256, 257, 400) if tier == "quick" else (2, 17, 63, 64, 65, 127, 128, 129, 130, 199, 200, 255, 256, 257, 300, 400, 511, 512, 513, 700):
        cases.append({"kind": "many", "n": n})
    return cases


def setup(ctx):
    import reuse.extract as ex

    from ..monitors import Contracts

    ctx.state["ex"] = ex
    con = Contracts()

    def cond(kw):
        if kw["result"] != ref_filter(kw["text"]):
            return [{"key": classify(kw["text"], "filter-mismatch"), "what": "contract on filter_ignore_block (in situ)",
                     "detail": {"text": kw["text"][:500]}}]
        return []

    ctx.state["con"] = con
    ctx.state["cond"] = cond


def run_case(case, ctx):
    ex = ctx.state["ex"]
    res = Res()
    kind = case["kind"]
    if kind == "enum":
        L = case["len"]
        for idx in range(case["lo"], case["hi"]):
            seq = seq_of(idx, L)
            nontriv = any(t in "SE" for t in seq) and any(t in "LCB" for t in seq)
            for commented in (False, True):
                for sep in ("\n", " "):
                    text, exp = render(seq, commented, sep)
                    check_text(text, exp if sep == "\n" else None, res, ex, "enumerated")
                    if nontriv:
                        res.nsig += 1
            if seq and seq[0] == "S":
                res.cell("start-at-first-char")
            if "S" in seq and "E" not in seq:
                res.cell("unterminated")
            if "E" in seq and (("S" not in seq) or seq.index("E") < seq.index("S")):
                res.cell("stray-end")
            if seq.count("S") > 1:
                res.cell("several-starts")
        if case["lo"] == 0:
            res.sample = {"sequence": seq_of(case["hi"] - 1, L), "text": render(seq_of(case["hi"] - 1, L), True, "\n")[0]}
    elif kind == "rand":
        rng = rng_for(ctx.seed, "c12", case["k"])
        for _ in range(case["n"]):
            L = rng.randint(5, 20)
            seq = [rng.choice("SSEELCBPN") for _ in range(L)]
            commented = rng.random() < 0.5
            sep = rng.choice(["\n", " ", "\n", "\t", ""])
            text, exp = render(seq, commented, sep)
            if rng.random() < 0.2:
                text = rng.choice(["", " ", "\n", "x"]) + text + rng.choice(["", "\n", " "])
                exp = None
            if sep == "\n" and exp is not None and rng.random() < 0.15 and any(t in "SE" for t in seq):
                # markers in a trailing comment behind a very long line of code (minified source, embedded data)
                long_code = "x = '" + "a" * rng.choice([1030, 1100, 2100, 5000]) + "'  "
                text = "\n".join((long_code + ln) if (START in ln or END in ln) else ln for ln in text.split("\n"))
                res.cell("markers-beyond-column-1024")
            check_text(text, exp if sep == "\n" else None, res, ex, "random")
            if any(t in "SE" for t in seq) and any(t in "LCB" for t in seq):
                res.sigs.add(short_hash("".join(seq), commented, repr(sep)))
    elif kind == "disk":
        run_disk(case, ctx, res)
    elif kind == "bigdisk":
        run_bigdisk(case, ctx, res)
    elif kind == "many":
        n = case["n"]
        for commented in (False, True):
            pre = "# " if commented else ""
            blocks = "".join(f"{pre}{START}\n{pre}SPDX-License-Identifier: LicenseRef-hidden{j}\n{pre}SPDX-FileContributor: Hidden{j}\n{pre}{END}\n" for j in range(n))
            for tail_kind, tail, exp in (
                    ("tag-after", f"{pre}SPDX-License-Identifier: LicenseRef-visible\n{pre}SPDX-FileCopyrightText: 2020 Visible\n",
                     {"lic": {"LicenseRef-visible"}, "cop": {"SPDX-FileCopyrightText: 2020 Visible"}, "con": set()}),
                    ("open-block-after", f"{pre}SPDX-License-Identifier: LicenseRef-visible\n{pre}{START}\n{pre}SPDX-License-Identifier: LicenseRef-hidden-last\n",
                     {"lic": {"LicenseRef-visible"}, "cop": set(), "con": set()})):
                check_text(blocks + tail, exp, res, ex, f"{n} blocks, {tail_kind}")
                check_text(f"{pre}SPDX-FileCopyrightText: 2019 Before\n" + blocks + tail,
                           dict(exp, cop=exp["cop"] | {"SPDX-FileCopyrightText: 2019 Before"}), res, ex, f"tag, {n} blocks, {tail_kind}")
        res.nsig += 4
        res.cell("many-blocks")
    return res.out()


def run_bigdisk(case, ctx, res):
    """Files longer than the 4 KiB header window that are scanned in full (snippet marker): an ignore block of 1-3 KiB is slid
    through the file so that it straddles every plausible read-buffer boundary; what it encloses must stay hidden."""
    from ..monitors import run_cli

    rng = rng_for(ctx.seed, "c12big", case["k"])
    root = ctx.scratch / f"c12big-{case['k']}"
    root.mkdir()
    expected = {}
    fill = "x = 'filler filler filler filler filler filler filler filler'\n"
    try:
        for j in range(case["n"]):
            pre = rng.randint(0, 260)
            inner = rng.randint(10, 60)
            text = "# SPDX-SnippetBegin\n# SPDX-SnippetCopyrightText: 2001 Visible Top\n# SPDX-License-Identifier: LicenseRef-top\n"
            text += fill * pre
            text += "# " + START + "\n# SPDX-License-Identifier: LicenseRef-hidden-a\n# SPDX-FileCopyrightText: 2002 Hidden A\n"
            text += fill * inner
            text += "# SPDX-License-Identifier: LicenseRef-hidden-b\n# SPDX-FileCopyrightText: 2003 Hidden B\n# " + END + "\n"
            text += fill * rng.randint(0, 40)
            text += "# SPDX-License-Identifier: LicenseRef-bottom\n# SPDX-FileCopyrightText: 2004 Visible Bottom\n# SPDX-SnippetEnd\n"
            wl, wc = {"LicenseRef-top", "LicenseRef-bottom"}, {"SPDX-SnippetCopyrightText: 2001 Visible Top", "SPDX-FileCopyrightText: 2004 Visible Bottom"}
            shape = j % 3
            if shape == 1:
                # plain header, then - beyond the 4 KiB window - an ignored *example* of a snippet, then a real snippet
                text = "# SPDX-FileCopyrightText: 2001 Visible Top\n# SPDX-License-Identifier: LicenseRef-top\n" + fill * (70 + pre)
                text += "# " + START + "\n# SPDX-SnippetBegin\n# SPDX-License-Identifier: LicenseRef-hidden-a\n# SPDX-SnippetCopyrightText: 2002 Hidden A\n# SPDX-SnippetEnd\n# " + END + "\n"
                text += fill * inner
                text += "# SPDX-SnippetBegin\n# SPDX-License-Identifier: LicenseRef-bottom\n# SPDX-SnippetCopyrightText: 2004 Visible Bottom\n# SPDX-SnippetEnd\n"
                wc = {"SPDX-FileCopyrightText: 2001 Visible Top", "SPDX-SnippetCopyrightText: 2004 Visible Bottom"}
            elif shape == 2:
                # a block opened inside the window and closed far beyond it, real snippets after that
                text = "# SPDX-FileCopyrightText: 2001 Visible Top\n# SPDX-License-Identifier: LicenseRef-top\n" + fill * (pre % 40)
                text += "# " + START + "\n# SPDX-License-Identifier: LicenseRef-hidden-a\n# SPDX-FileCopyrightText: 2002 Hidden A\n" + fill * (80 + inner)
                text += "# SPDX-License-Identifier: LicenseRef-hidden-b\n# " + END + "\n" + fill * 3
                text += "# SPDX-SnippetBegin\n# SPDX-License-Identifier: LicenseRef-bottom\n# SPDX-SnippetCopyrightText: 2004 Visible Bottom\n# SPDX-SnippetEnd\n"
                wc = {"SPDX-FileCopyrightText: 2001 Visible Top", "SPDX-SnippetCopyrightText: 2004 Visible Bottom"}
            (root / f"b{j}.py").write_text(text)
            expected[f"b{j}.py"] = (wl, wc, (pre, inner, ["whole-file-snippet", "ignored-snippet-example-beyond-window", "block-from-window-to-beyond"][shape]))
        r = run_cli(["--no-multiprocessing", "--root", str(root), "lint", "--json"], cwd=str(root))
        try:
            data = json.loads(r.stdout)
        except ValueError:
            res.violation("lint-json-unparseable", "lint --json gave no JSON", **r.brief())
            return
        by = {f["path"]: f for f in data["files"]}
        for name, (wl, wc, shape) in expected.items():
            res.n += 1
            f = by.get(name)
            if f is None:
                res.violation("file-not-reported", f"{name} not in lint --json files")
                continue
            gl = {x["value"] for x in f["spdx_expressions"]}
            gc = {x["value"] for x in f["copyrights"]}
            if gl != wl or gc != wc:
                res.violation("block-across-buffer-boundary", f"big file ({shape[2]}), {shape[0]} filler lines before and {shape[1]} inside the block: lint reads "
                              f"{sorted(gl)} / {sorted(gc)}, outside the block are {sorted(wl)} / {sorted(wc)}", shape=shape)
            else:
                res.sigs.add(short_hash("big", shape))
            res.cell("bigdisk:" + shape[2])
    finally:
        import shutil

        shutil.rmtree(root, ignore_errors=True)


def run_disk(case, ctx, res):
    """Files on disk, read through the real `reuse lint --json` with the contract attached."""
    from ..monitors import run_cli

    con = ctx.state["con"]
    attached = con.attach("reuse.extract", "filter_ignore_block", ctx.state["cond"])
    rng = rng_for(ctx.seed, "c12disk", case["k"])
    root = ctx.scratch / f"c12-{case['k']}"
    root.mkdir()
    expected = {}
    try:
        for j in range(case["n"]):
            L = rng.randint(1, 8)
            seq = [rng.choice("SSEELCBPN") for _ in range(L)]
            if j == 0:
                seq = ["S", "L", "E", "C"]
            commented = rng.random() < 0.8
            text, exp = render(seq, commented, "\n")
            text += "\n"
            if not text.strip():
                continue
            if j % 5 == 4 and any(t in "SE" for t in seq):
                # a licence tag outside every block that cannot be parsed: the file contributes nothing - and certainly
                # nothing of what its ignore blocks enclose
                text = ("# " if commented else "") + "SPDX-License-Identifier: MIT AND (0BSD OR)\n" + text  # first line: before any marker
                exp = {"lic": set(), "cop": set(), "con": set()}
            if rng.random() < 0.3:
                # one line that closes a block and opens the next: the same blocks, written more tightly
                pre_ = "# " if commented else ""
                text = text.replace(pre_ + END + "\n" + pre_ + START, pre_ + END + " " + START)
            (root / f"f{j}.py").write_text(text)
            expected[f"f{j}.py"] = (exp, text, seq)
        r = run_cli(["--no-multiprocessing", "--root", str(root), "lint", "--json"], cwd=str(root))
        try:
            data = json.loads(r.stdout)
        except ValueError:
            res.violation("lint-json-unparseable", "lint --json gave no JSON", **r.brief())
            return
        by = {f["path"]: f for f in data["files"]}
        for name, (exp, text, seq) in expected.items():
            f = by.get(name)
            res.n += 1
            if f is None:
                res.violation("file-not-reported", f"{name} not in lint --json files", text=text)
                continue
            got_l = {x["value"] for x in f["spdx_expressions"]}
            got_c = {x["value"] for x in f["copyrights"]}
            if got_l != exp["lic"] or got_c != exp["cop"]:
                res.violation(classify(text, "lint-mismatch"), "lint --json attributes tags differing from those outside ignore blocks",
                              text=text, got=[sorted(got_l), sorted(got_c)], want=[sorted(exp["lic"]), sorted(exp["cop"])])
            if any(t in "SE" for t in seq) and any(t in "LC" for t in seq):
                res.sigs.add(short_hash("disk", text))
        # second phase: what a block encloses stays nobody's information when the file is annotated, and what is outside stays
        for name, (exp, text, seq) in expected.items():
            if "MIT AND (0BSD OR)" in text:
                continue
            # annotate regenerates the comment block it takes for the header; a marker *inside that block* goes the way of all
            # free text in a replaced header, which is not this property's business: only files whose visible tags share no
            # comment block with a marker are annotated here
            inside, mixed, blk_vis, blk_mark = False, False, False, False
            for t in list(seq) + ["N"]:
                if t == "N":
                    mixed = mixed or (blk_vis and blk_mark)
                    blk_vis = blk_mark = False
                    continue
                if t == "S":
                    inside, blk_mark = True, True
                elif t == "E":
                    inside, blk_mark = False, True
                elif t in "LCB" and not inside:
                    blk_vis = True
            if mixed and text.lstrip().startswith("#"):
                res.cell("annotate-skipped:marker-inside-the-header-block")
                continue
            ra = run_cli(["--no-multiprocessing", "--root", str(root), "annotate", "-c", "Phase Two", "-l", "LicenseRef-phase2", "--year", "2031",
                          str(root / name)], cwd=str(root))
            if ra.escaped:
                res.violation("annotate-escaped", f"{ra.exc_type} while annotating a file with ignore blocks", text=text, tb=ra.exc_tb)
                continue
            if ra.exit_code != 0:
                res.cell("annotate-refused")
                continue
            rl = run_cli(["--no-multiprocessing", "--root", str(root), "lint-file", str(root / name)], cwd=str(root))
            try:
                info = ctx.state["ex"].reuse_info_of_file(root / name, root / name, root)
                got_l, got_c = {str(e) for e in info.spdx_expressions}, set(info.copyright_lines)
            except Exception as e:  # noqa
                got_l, got_c = {"raised " + type(e).__name__}, set()
            want_l = exp["lic"] | {"LicenseRef-phase2"}
            want_c = exp["cop"] | {"SPDX-FileCopyrightText: 2031 Phase Two"}
            res.n += 1
            if got_l != want_l or got_c != want_c:
                res.violation(classify(text, "annotate-then-read-mismatch"), "after annotate the file declares something else than the tags outside its "
                              "ignore blocks plus the request", text=text, after=(root / name).read_text()[:700], got=[sorted(got_l), sorted(got_c)],
                              want=[sorted(want_l), sorted(want_c)])
            res.cell("annotated-then-read")
        ctx.count("contract_evals_filter_ignore_block", con.evals.get("reuse.extract.filter_ignore_block", 0))
        con.evals["reuse.extract.filter_ignore_block"] = 0
        for v in con.drain():
            res.violation(v["key"], v["what"], **v.get("detail", {}))
        if not attached:
            ctx.count("contract_skipped")
    finally:
        con.detach()
        import shutil

        shutil.rmtree(root, ignore_errors=True)


def inconclusive_reasons(counters, finish, feats, tier):
    out = []
    if counters.get("contract_evals_filter_ignore_block", 0) == 0 and not counters.get("contract_skipped"):
        out.append("contract on filter_ignore_block never evaluated during lint runs")
    return out
