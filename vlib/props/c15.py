"""C15 Commands touch only what they are documented to touch.

Monitors: audit-hook mutation log (M-fs, also inside forked pool workers), content+metadata
snapshot of the project *and* of a sentinel directory outside it (M-snap), and for a sample a
real `reuse` process under `strace -f` (M-strace).  Oracle: the allowed write set from the recipe.
"""

import json
import os
import re
import shutil
import subprocess

from .. import env, trees
from ..monitors import FS, run_cli, snap_diff, snapshot
from ..util import Res, rng_for, short_hash

ID = "C15"
LEVEL = "exploration"
RULE = ("trees with symlinks to files and directories outside the project, Git-ignored files, LICENSES/, .reuse/, read-only files; every "
        "subcommand with sampled options (lint in four formats, lint-file, spdx [-o inside/outside], supported-licenses, --help / "
        "--version of everything, annotate on named files and with -r, convert-dep5, download with the network refused), alone and "
        "in sequences of 2-4; 1 in 12 commands re-run as a real process under strace -f; non-trivial = command on a tree with "
        "outside symlinks; distinct = distinct (command line shape, tree)")
ASSUMPTIONS = ["tolerated and reported separately: .git/index (+ index.lock) refreshed by the `git status` child process",
               "grey: a symlink named explicitly on the annotate command line (the statement's 'never following symlinks' is read for "
               "what recursion reaches)"]
MIN_NONTRIVIAL = {"quick": 200, "thorough": 8000}
BATCHES_PER_JOB = 3

MUT_SYSCALL = re.compile(r"^(?:\[pid\s+\d+\]\s+|\d+\s+)?(\w+)\((.*)\)\s+=\s+(-?\d+)")
WRITE_FLAGS = ("O_WRONLY", "O_RDWR", "O_CREAT", "O_TRUNC", "O_APPEND")


def generate(tier, seed):
    n = 1500 if tier == "quick" else 50000
    per = 10
    return [{"k": k, "n": per} for k in range(n // per)]


def setup(ctx):
    FS.install()
    ctx.state["styles"] = trees.style_table()
    import reuse.download as dl

    dl._SPDX_REPOSITORY_BASE_URL = "http://127.0.0.1:9/"


def build_world(ctx, rng, base, git):
    proj, sent = base / "proj", base / "sentinel"
    recipe = trees.gen_recipe(rng, n_files=rng.randint(4, 9), defects=[rng.choice(trees.DEFECTS[:9]) for _ in range(rng.randint(0, 2))],
                              global_mode=rng.choice(["none", "toml", "dep5"]), git=False)
    trees.build(recipe, proj, ctx.state["styles"])
    sent.mkdir()
    if recipe["global_mode"] == "dep5" and rng.random() < 0.4:
        # .reuse/dep5 is a link to a file kept elsewhere (shared between checkouts): converting may remove the link, not touch its target
        shutil.move(str(proj / ".reuse" / "dep5"), str(sent / "shared.dep5"))
        os.symlink(str(sent / "shared.dep5"), proj / ".reuse" / "dep5")
    (sent / "outside.py").write_text("print('outside')\n")
    (sent / "odir").mkdir()
    (sent / "odir" / "inner.c").write_text("int x;\n")
    (sent / "odir" / "sub").mkdir()
    (sent / "odir" / "sub" / "deep.py").write_text("x = 1\n")
    (sent / "LICENSES").mkdir()   # a directory of that name which is not the project's
    (sent / "LICENSES" / "README").write_text("not part of the project\n")
    os.symlink(str(sent / "outside.py"), proj / "link_to_outside_file.py")
    os.symlink(str(sent / "odir"), proj / "link_to_outside_dir")
    os.symlink("../sentinel/odir", proj / "rel_link_dir")
    (proj / "docs2").mkdir(exist_ok=True)
    os.symlink(str(sent / "outside.py"), proj / "docs2" / "nested_link.py")
    (proj / "docs2" / "real.py").write_text("y = 2\n")
    # siblings whose names merely start like a directory that gets named on the command line
    (proj / "docs2-legacy" / "deep").mkdir(parents=True)
    (proj / "docs2-legacy" / "old.py").write_text("o = 1\n")
    (proj / "docs2-legacy" / "deep" / "older.py").write_text("o = 2\n")
    (proj / "docs2.cfg").write_text("[x]\n")
    (proj / "readonly.py").write_text("z = 3\n")
    os.chmod(proj / "readonly.py", 0o444)
    (proj / "LICENSE").write_text("licence blurb\n")
    (proj / "LICENSES").mkdir(exist_ok=True)
    if rng.random() < 0.2:
        # a fresh project: the directory is there, nothing in it yet (also not after a download that fails)
        shutil.rmtree(proj / "LICENSES")
        (proj / "LICENSES").mkdir()
    elif rng.random() < 0.5:
        (proj / "LICENSES" / "LicenseRef-two.txt").write_text("already here\n")
    elif rng.random() < 0.5:
        (sent / "shared-licence.txt").write_text("shared text outside the project\n")
        os.symlink(str(sent / "shared-licence.txt"), proj / "LICENSES" / "LicenseRef-two.txt")
    if (proj / "LICENSES").is_dir() and not os.path.lexists(proj / "LICENSES" / "LicenseRef-local-one.txt") and rng.random() < 0.4:
        # a link to nowhere (yet) where a licence text would go: download adds no file there - and none where the link points to
        os.symlink(str(sent / "not-mounted" / "LicenseRef-local-one.txt"), proj / "LICENSES" / "LicenseRef-local-one.txt")
        (sent / "not-mounted").mkdir()
    (proj / "notes.unknownext").write_text("notes\n")
    # a Meson project that is a sub-directory of this one: its subprojects are nobody's covered files either
    (proj / "client" / "subprojects" / "libfoo").mkdir(parents=True)
    (proj / "client" / "meson.build").write_text("project('client')\n")
    (proj / "client" / "subprojects" / "libfoo" / "foo.c").write_text("int foo;\n")
    ignored = set()
    if git:
        # "outer": the project is a subdirectory of a larger work tree, which is where .git and the ignore rules live
        top = proj if git != "outer" else base
        trees.git_init(top)
        (top / ".gitignore").write_text("*.ign\nbuild/\n")
        (proj / "gen.ign").write_text("generated\n")
        (proj / "build").mkdir()
        (proj / "build" / "out.py").write_text("o = 1\n")
        (proj / "docs2" / "also.ign").write_text("g\n")
        # somebody else's repository cloned into the ignored build directory: one directory entry for Git, which never looks inside
        dep = proj / "build" / "_deps" / "fmt-src"
        dep.mkdir(parents=True)
        trees.git(dep, "init", "-q")
        (dep / "fmt.py").write_text("fmt = 1\n")
        trees.git(dep, "add", ".", check=False)
        trees.git(dep, "commit", "-q", "-m", "dep", check=False)
        # a name from an old archive: Latin-1 bytes, not UTF-8 - ignored all the same
        with open(os.fsencode(str(proj)) + b"/caf\xe9.ign", "wb") as fp:
            fp.write(b"g = 1\n")
        with open(os.fsencode(str(proj / "docs2")) + b"/na\xefve.ign", "wb") as fp:
            fp.write(b"g = 2\n")
        # ignored only by the user's personal ignore file, which lives outside the repository
        xdg = base / "xdg"
        (xdg / "git").mkdir(parents=True)
        (xdg / "git" / "ignore").write_text("*.scratch\n")
        os.environ["XDG_CONFIG_HOME"] = str(xdg)
        (proj / "notes.scratch").write_text("personal notes\n")
        (proj / "docs2" / "tmp.scratch").write_text("t = 1\n")
        # names typed with combining accents (as macOS tools write them): Git lists them byte for byte, ignored all the same
        (proj / "cache-cafe\u0301").mkdir()
        (proj / "cache-cafe\u0301" / "blob.py").write_text("b = 1\n")
        (proj / "docs2" / "re\u0301sume\u0301.gen.py").write_text("r = 1\n")
        with open(top / ".gitignore", "a", encoding="utf-8") as fp:
            fp.write("cache-cafe\u0301/\n*.gen.py\n")
        ignored = {"gen.ign", "build/out.py", "docs2/also.ign"}
        trees.git(top, "add", "-A", check=False)
        trees.git(top, "commit", "-q", "-m", "init", check=False)
        if git != "outer":
            # a submodule: its files are not the project's unless --include-submodules is given (it never is here)
            src = base / "subsrc"
            src.mkdir()
            trees.git(src, "init", "-q")
            (src / "lib.py").write_text("lib = 1\n")
            trees.git(src, "add", ".")
            trees.git(src, "commit", "-q", "-m", "sub")
            r = trees.git(proj, "submodule", "add", "-q", str(src), "vendor/lib", check=False)
            if r.returncode == 0:
                trees.git(proj, "commit", "-q", "-m", "add submodule", check=False)
    covered = set(trees.spec_expect(recipe)["covered"]) | {"docs2/real.py", "readonly.py", "notes.unknownext", "docs2-legacy/old.py", "client/meson.build",
                                                            "docs2-legacy/deep/older.py", "docs2.cfg"}
    if git and git != "outer":
        covered.add(".gitignore")
        if (proj / ".gitmodules").exists():
            covered.add(".gitmodules")
    return proj, sent, recipe, covered, ignored


def pick_command(rng, proj, sent, recipe, covered, outdir):
    """-> (global args, command args, allowed relative paths (to base), label)"""
    r = rng.random()
    cov = sorted(covered)
    gl = ["--no-multiprocessing"] if rng.random() < 0.9 else []
    if r < 0.16:
        return gl, ["lint"] + rng.choice([[], ["--json"], ["--plain"], ["--lines"], ["--quiet"]]), set(), "lint"
    if r < 0.24:
        files = [str(proj / f) for f in rng.sample(cov, min(len(cov), rng.randint(1, 4)))] + [str(proj / "link_to_outside_file.py")]
        return gl, ["lint-file"] + files, set(), "lint-file"
    if r < 0.28:
        return gl, ["spdx"], set(), "spdx"
    if r < 0.30:
        # '-' is standard output, not a file of that name
        return gl, ["spdx", "-o", "-"], set(), "spdx-o-dash"
    if r < 0.36:
        where = rng.choice(["in", "out"])
        target = (proj / "bom.spdx") if where == "in" else (outdir / "bom.spdx")
        extra = ["--add-license-concluded", "--creator-person", "J"] if rng.random() < 0.4 else []
        return gl, ["spdx", "-o", str(target)] + extra, {os.path.relpath(target, proj.parent)}, "spdx-o-" + where
    if r < 0.40:
        return gl, ["supported-licenses"], set(), "supported-licenses"
    if r < 0.48:
        sub = rng.choice([[], ["lint"], ["annotate"], ["spdx"], ["download"], ["convert-dep5"], ["lint-file"], ["supported-licenses"]])
        return gl, sub + [rng.choice(["--help", "--help", "--version"] if not sub else ["--help"])], set(), "help-version"
    if r < 0.68:
        # annotate named files
        files = rng.sample(cov, min(len(cov), rng.randint(1, 3)))
        opts = ["-c", "Jane", "-l", "MIT"] + rng.choice([[], ["--fallback-dot-license"], ["--force-dot-license"], ["--skip-unrecognised"],
                                                       ["--fallback-dot-license", "--merge-copyrights"]])
        allowed = set()
        for f in files:
            allowed |= {"proj/" + f, "proj/" + f + ".license"}
        return gl, ["annotate"] + opts + [str(proj / f) for f in files], allowed, "annotate-named"
    if r < 0.84:
        dirs = rng.choice([["."], ["docs2"], [".", "docs2"], ["link_to_outside_dir"], ["src"] if (proj / "src").is_dir() else ["."],
                           ["vendor"] if (proj / "vendor").is_dir() else ["."], ["client"], ["build"] if (proj / "build").is_dir() else ["client"]])
        opts = ["-c", "Jane", "-l", "MIT", "-r"] + rng.choice([["--fallback-dot-license"], ["--skip-unrecognised"], ["--force-dot-license"]])
        allowed = set()
        for d in dirs:
            for f in cov:
                if d == "." or f.startswith(d + "/"):
                    allowed |= {"proj/" + f, "proj/" + f + ".license"}
        named = []
        if "--force-dot-license" in opts and rng.random() < 0.5:
            # a link named next to the directories: what is written for it is a sidecar next to the *name*, nothing next to the target
            named = [str(proj / "link_to_outside_file.py")]
            allowed |= {"proj/link_to_outside_file.py.license"}
        return gl, ["annotate"] + opts + [str(proj / d) for d in dirs] + named, allowed, "annotate-recursive"
    if r < 0.90:
        allowed = {"proj/REUSE.toml", "proj/.reuse/dep5"} if recipe["global_mode"] == "dep5" else set()
        return gl, ["convert-dep5"], allowed, "convert-dep5"
    # download: network refused; LicenseRef- is created locally
    ids = rng.sample(["MIT", "LicenseRef-local-one", "LicenseRef-two", "Apache-2.0", "0BSD+"], rng.randint(1, 3))
    extra = []
    if rng.random() < 0.3:
        ids = ["--all"]
    elif rng.random() < 0.5:
        # LicenseRef- texts copied from a --source file or directory outside the project
        src = sent / rng.choice(["outside.py", "odir"])
        if src.is_dir():
            for i in ids:
                if i.startswith("LicenseRef-"):
                    (src / f"{i}.txt").write_text(f"text of {i}\n")
        extra = ["--source", str(src)]
    # download only ever *adds* files: a target that exists already (also as a link to somewhere else) is not in the write set
    allowed = {"proj/LICENSES"} | {f"proj/LICENSES/{i}.txt" for i in ids
                                    if i.startswith("LicenseRef-") and not os.path.lexists(proj / "LICENSES" / f"{i}.txt")}
    if ids == ["--all"]:
        # every missing licence may be added; LicenseRef- ones are created locally even though the network is refused
        allowed |= {"proj/LICENSES/" + n for n in [i + ".txt" for i in trees.REF_IDS + ["LicenseRef-special"]]
                    if not os.path.lexists(proj / "LICENSES" / n)}
    if extra and extra[1].endswith("odir"):
        allowed |= {f"sentinel/odir/{i}.txt" for i in ids if i.startswith("LicenseRef-")}  # written by the harness itself, before the snapshot
    return gl, ["download"] + extra + ids, allowed, "download"


def judge(res, base, proj, before, after, events, allowed, label, args, git, via="in-process"):
    diff = snap_diff(before, after)
    tolerated = []
    for rel, what in sorted(diff.items()):
        if rel.startswith(("proj/.git/", ".git/")) or rel in ("proj/.git", ".git"):
            tolerated.append(rel)
            continue
        if rel in allowed:
            if label == "download" and what != "added":
                res.violation("download:alters-what-exists", f"`reuse {' '.join(args)[:160]}` {what} {rel}; download only ever adds ({via})", diff=diff)
                return False
            continue
        if what == "added" and after[rel][0] == "d" and any(a.startswith(rel + "/") for a in allowed):
            continue
        where = "outside-the-project" if not rel.startswith("proj/") else "inside-the-project"
        res.violation(f"{label}:writes-{where}", f"`reuse {' '.join(args)[:160]}` {what} {rel}, which is not in its documented write set ({via})",
                      allowed=sorted(allowed)[:20], diff=diff)
        return False
    # The audit hook sees *attempts*.  Every lasting effect is already in the snapshot difference (content, mode, mtime, ctime);
    # what only the event log can show is a file created and removed again in between.
    basep = str(base) + os.sep
    created, removed = set(), set()
    for e in events:
        for p in (e.get("path"), e.get("path2")):
            if not p or not p.startswith(basep):
                continue
            rel = os.path.relpath(p, base)
            if rel.startswith(("proj/.git/", ".git/")) or rel in allowed:
                continue
            if rel in before or rel in after:
                if before.get(rel) == after.get(rel):
                    res.cell("attempt-without-effect")
                continue
            if e["ev"] in ("open-w", "os.mkdir", "shutil.copyfile", "os.link", "os.symlink", "os.rename"):
                created.add(rel)
            if e["ev"] in ("os.remove", "os.rmdir", "os.rename", "shutil.rmtree"):
                removed.add(rel)
    for rel in sorted(created & removed):
        res.violation(f"{label}:transient-file-outside-write-set", f"`reuse {' '.join(args)[:160]}` created and removed {rel}, which is not in its documented write set ({via})")
        return False
    if tolerated:
        res.cell("tolerated:.git")
    return True


def strace_run(base, proj, gl, cmd, timeout=120):
    log = str(base / "strace.log")
    full = ["strace", "-f", "-qq", "-o", log, "-e",
            "trace=open,openat,creat,unlink,unlinkat,rename,renameat,renameat2,mkdir,mkdirat,rmdir,truncate,ftruncate,link,linkat,symlink,symlinkat,chmod,fchmodat,utimensat",
            env.PY, "-m", "vlib.launch", "--"] + gl + ["--root", str(proj)] + cmd
    p = subprocess.run(full, cwd=str(proj), env=env.child_env(), stdout=subprocess.PIPE, stderr=subprocess.PIPE, timeout=timeout)
    muts = []
    try:
        lines = open(log, errors="replace").read().splitlines()
    except OSError:
        lines = []
    for line in lines:
        m = MUT_SYSCALL.match(line)
        if not m:
            continue
        call, argstr, ret = m.group(1), m.group(2), int(m.group(3))
        if ret < 0:
            continue
        paths = re.findall(r'"((?:[^"\\]|\\.)*)"', argstr)
        if not paths:
            continue
        if call in ("open", "openat", "creat"):
            if call != "creat" and not any(f in argstr for f in WRITE_FLAGS):
                continue
        elif call == "utimensat" and "NULL" in argstr.split(",")[1]:
            continue
        for pth in paths[:2]:
            pth = pth.encode().decode("unicode_escape").encode("latin-1").decode("utf-8", "replace")
            if not os.path.isabs(pth):
                pth = os.path.join(str(proj), pth)
            muts.append({"ev": call, "path": os.path.normpath(pth)})
    try:
        os.unlink(log)
    except OSError:
        pass
    return p, muts


def run_case(case, ctx):
    res = Res()
    rng = rng_for(ctx.seed, "c15", case["k"])
    base = ctx.scratch / f"c15-{case['k']}"
    base.mkdir()
    outdir = ctx.scratch / f"c15-{case['k']}-out"
    outdir.mkdir()
    git = (True, False, False, "outer", False, False)[case["k"] % 6]
    try:
        proj, sent, recipe, covered, ignored = build_world(ctx, rng, base, git)
        i = 0
        while i < case["n"]:
            seq = rng.choice([1, 1, 2, 3, 4])
            for _ in range(seq):
                if i >= case["n"]:
                    break
                i += 1
                gl, cmd, allowed, label = pick_command(rng, proj, sent, recipe, covered, outdir)
                args = gl + ["--root", str(proj)] + cmd
                use_strace = (case["k"] * 31 + i) % 12 == 0
                before = snapshot(base, with_ctime=True)
                if use_strace:
                    try:
                        p, muts = strace_run(base, proj, gl, cmd)
                    except subprocess.TimeoutExpired:
                        ctx.count("strace_timeouts")
                        continue
                    after = snapshot(base, with_ctime=True)
                    ctx.count("strace_runs")
                    ctx.count("strace_mutating_syscalls", len(muts))
                    ok = judge(res, base, proj, before, after, muts, allowed, label, cmd, git, via="strace")
                else:
                    cwd = rng.choice([proj, proj, proj / "docs2", sent, sent / "LICENSES", proj / "LICENSES"])
                    if label == "download" and rng.random() < 0.5:
                        cwd = rng.choice([sent / "LICENSES", proj / "LICENSES", sent])
                    res.cell(f"cwd:{os.path.relpath(cwd, base)}")
                    FS.begin()
                    try:
                        r = run_cli(args, cwd=str(cwd))
                    finally:
                        events = FS.end()
                    after = snapshot(base, with_ctime=True)
                    ctx.count("mfs_events", len(events))
                    if r.escaped:
                        res.violation(f"escaped-exception:{label}", f"{r.exc_type} left main() for `{' '.join(cmd)[:120]}`", tb=r.exc_tb)
                        ok = False
                    else:
                        ok = judge(res, base, proj, before, after, events, allowed, label, cmd, git)
                res.n += 1
                res.cell("cmd:" + label)
                res.cell(f"vcs:{git}")
                if ok:
                    res.sigs.add(short_hash(label, [a for a in cmd if not a.startswith("/")], case["k"], i))
                if res.sample is None and label == "annotate-recursive":
                    res.sample = {"command": [a.replace(str(base), "<base>") for a in cmd], "allowed": sorted(allowed)[:12], "git": git}
                # the world changes legitimately: refresh what later commands may rely on
                if label == "convert-dep5" and (proj / "REUSE.toml").exists():
                    recipe["global_mode"] = "toml"
    finally:
        FS.active = False
        os.environ.pop("XDG_CONFIG_HOME", None)
        shutil.rmtree(base, ignore_errors=True)
        shutil.rmtree(outdir, ignore_errors=True)
    return res.out()


def inconclusive_reasons(counters, finish, feats, tier):
    out = []
    if counters.get("strace_runs", 0) == 0:
        out.append("no command was observed under strace")
    if counters.get("mfs_events", 0) == 0:
        out.append("the audit-hook monitor saw no mutation event at all")
    return out
