"""C11 A failed annotation leaves the tree as it was and shows in the exit status.

Fault enumeration: invocations over several files in which a chosen subset must fail for an
anticipated reason, in every argument position, with every .license option.  Observed: tree
snapshot before/after, the audit-hook mutation log, exit status and per-file messages.
"""

import itertools
import os
import shutil

from .. import annot, trees
from ..monitors import FS, run_cli, snapshot
from ..util import Res, rng_for, short_hash

ID = "C11"
LEVEL = "fault_enumeration"
RULE = ("invocations over 2-5 files drawn from {python, html, c, jinja, unrecognised, python with an unparseable existing header, "
        "binary} x failure cause {holder containing a multi-line terminator, template dropping both / one kind of information, "
        "unparseable existing header, unsupported --single-line/--multi-line, unrecognised extension, mutually exclusive options} x "
        "failing subset and argument position (permutations) x {none, --force-dot-license, --fallback-dot-license, "
        "--skip-unrecognised} x .license sibling {absent, present}; non-trivial = at least one file must fail and one must "
        "succeed; distinct = distinct (file kinds in order, cause, option, siblings)")
ASSUMPTIONS = ["layer 1 (valid for every file whatever the cause): a file the run reported as failed is byte-identical, its .license "
               "sibling unchanged or still absent; exit 1 iff some file was reported failed",
               "layer 2: the recipe marks each argument must-fail / must-succeed by cause; usage errors (exit 2) must come with "
               "no mutation event inside the project"]
MIN_NONTRIVIAL = {"quick": 100, "thorough": 2000}

KINDS = {
    "py": ("a.py", "python"),
    "html": ("b.html", "html"),
    "c": ("c.c", "c"),
    "jinja": ("d.jinja2", "jinja"),
    "unrec": ("e.zzz9", None),
    "badhdr": ("f.py", "python"),
    "bin": ("g.dat", None),
    "ml": ("h.ml", "ml"),
    # recognised by its whole name, not by a suffix - and an unrecognised file that has the same (empty) suffix
    "named": ("Makefile", "python"),
    "named2": ("Dockerfile", "python"),
    "unrecnoext": ("NOTES", None),
    # a file that already declares copyright and licence in a header of its own
    "hdr": ("i.py", "python"),
    # styles that have a line form and a block form
    "cpp": ("j.cpp", "cpp"),
    "js": ("k.js", "cpp"),
    # names that look like format fields to whoever builds a message with str.format
    "brace": ("{app} {0} {}.c", "c"),
    "brace2": ("{6B29FC40-CA47}.c", "c"),
}
UNREC = ("unrec", "unrecnoext")
TERMINATOR = {"html": "-->", "c": "*/", "jinja": "#}", "ml": "*)", "cpp": "*/"}


def generate(tier, seed):
    n = 5000 if tier == "quick" else 150000
    per = 20
    return [{"k": k, "n": per} for k in range(n // per)]


def setup(ctx):
    FS.install()
    ctx.state["styles"] = trees.style_table()


def write_kind(d, kind, idx):
    name, _ = KINDS[kind]
    f = d / f"{idx}_{name}"
    if kind in ("named", "named2"):
        (d / f"n{idx}").mkdir(exist_ok=True)
        f = d / f"n{idx}" / name
    if kind == "hdr":
        f.write_text("# SPDX-FileCopyrightText: 2001 Earlier\n#\n# SPDX-License-Identifier: ISC\n\nK1 code\n")
    elif kind == "badhdr":
        f.write_text("# SPDX-FileCopyrightText: 2001 Old\n# SPDX-License-Identifier: MIT AND OR\n\nK1 code\n")
    elif kind == "bin":
        f.write_bytes(trees.BINARY_BLOB)
    else:
        f.write_text("K1 code\nK2 code\n")
    return f


def run_one(res, ctx, root, rng, idx):
    d = root / f"i{idx}"
    d.mkdir()
    nfiles = rng.randint(2, 5)
    kinds = [rng.choice(list(KINDS)) for _ in range(nfiles)]
    files = [write_kind(d, k, j) for j, k in enumerate(kinds)]
    siblings = [rng.random() < 0.2 for _ in files]
    for f, sib in zip(files, siblings):
        if sib:
            (f.parent / (f.name + ".license")).write_text("SPDX-FileCopyrightText: 1999 Sibling\n")
    cause = rng.choice(["terminator", "terminator", "terminator", "terminator", "template-both", "template-one", "none", "single-line",
                        "multi-line", "mutex", "style-vs-line-mode", "template-cop-only"])
    dot = rng.choice([None, None, "--force-dot-license", "--fallback-dot-license", "--skip-unrecognised"])
    args = ["-l", "MIT", "--year", "2020"]
    if cause == "template-cop-only":
        # only a notice is requested and the template renders notices only: fine for a file without licence so far, not for one
        # whose header already names one (the regenerated header would lose it)
        args = ["--year", "2020"]
    holder = "Jane Doe"
    term = None
    if cause == "terminator":
        present = [TERMINATOR[KINDS[k][1]] for k in kinds if KINDS[k][1] in TERMINATOR]
        term = rng.choice(present) if present and rng.random() < 0.85 else rng.choice(list(TERMINATOR.values()))
        holder = f"Jane {term} Doe"
    args += ["-c", holder]
    template = None
    if cause == "template-both":
        template = "dropboth"
    elif cause == "template-cop-only":
        template = "droplic"
    elif cause == "template-one":
        template = rng.choice(["droplic", "dropcop", "droplic-commented", "dropboth-commented", "misspelt"])
    if template:
        args += ["--template", annot.template_arg(template)]
    if cause == "single-line":
        args.append("--single-line")
    if cause == "multi-line":
        args.append("--multi-line")
    if cause == "terminator" and rng.random() < 0.35:
        # the block form asked for explicitly, alone or next to --no-replace: the holder's terminator then ends the block early
        args.append("--multi-line")
        if rng.random() < 0.5:
            args.append("--no-replace")
    line_mode = "--multi-line" if "--multi-line" in args else "--single-line" if "--single-line" in args else None
    forced = None
    if cause == "style-vs-line-mode":
        # the forced style decides whether --single-line / --multi-line can be honoured, whatever the file names suggest
        forced, lm = rng.choice([("c", "--single-line"), ("html", "--single-line"), ("python", "--multi-line"), ("lisp", "--multi-line"),
                                 ("cpp", "--single-line"), ("cpp", "--multi-line"), ("python", "--single-line"), ("html", "--multi-line")])
        args += ["--style", forced, lm]
        if dot == "--skip-unrecognised":
            dot = None
    if cause == "mutex":
        args += rng.choice([["--single-line", "--multi-line"], ["--year", "2021", "--exclude-year"],
                            ["--force-dot-license", "--skip-unrecognised"], ["--style", "python", "--skip-unrecognised"]])
    if dot and cause != "mutex":
        args.append(dot)
    order = list(range(nfiles))
    rng.shuffle(order)
    cwd, gargs, fargs = annot.place(rng, root, [files[j] for j in order])
    full = gargs + ["annotate"] + args + fargs
    spelled = {j: fargs[i] for i, j in enumerate(order)}  # the tool's messages name a file the way it was given

    # ---------------- expectation per file
    usage = cause == "mutex"
    if forced:
        fst = ctx.state["styles"][forced]
        if ("--single-line" in args and not fst["single"]) or ("--multi-line" in args and not (fst["multi"][0] and fst["multi"][2])):
            usage = True
    exp = {}
    for j, (k, f, sib) in enumerate(zip(kinds, files, siblings)):
        style = KINDS[k][1]
        to_license = sib or k == "bin" or dot == "--force-dot-license" or (k in UNREC and dot == "--fallback-dot-license")
        if k in UNREC + ("bin",) and not sib and dot is None and not forced:
            usage = True  # no recognised comment style and no option saying what to do
        # the pre-flight line-handling check looks at the path annotate will open: FILE.license when it already exists
        if cause in ("single-line", "multi-line", "terminator") and line_mode:
            if sib:
                usage = True  # a .license target (EmptyCommentStyle) supports neither
            elif style is not None:
                st = ctx.state["styles"][style]
                if line_mode == "--single-line" and not st["single"]:
                    usage = True
                if line_mode == "--multi-line" and not (st["multi"][0] and st["multi"][2]):
                    usage = True
        if k in UNREC and dot == "--skip-unrecognised" and not sib:
            exp[j] = "skip"
        elif template and cause == "template-cop-only":
            # to_license: the header goes to a .license file; an existing sibling here holds a notice only
            exp[j] = "fail" if (k == "hdr" and not to_license) else ("any" if k == "badhdr" else "ok")
        elif template:
            exp[j] = "fail"
        elif forced:
            exp[j] = "any"  # layer 1 only: which files a forced foreign style can annotate is not this property's business
        elif to_license:
            exp[j] = "ok"
        elif k == "badhdr":
            exp[j] = "any"  # the broken header is not recognised as a header: layer 1 only
        elif term is not None and style in TERMINATOR and TERMINATOR[style] == term and (
                line_mode == "--multi-line" or not ctx.state["styles"][style]["single"]):
            exp[j] = "fail"
        else:
            exp[j] = "ok"
    before = snapshot(root)
    FS.begin()
    try:
        r = run_cli(full, cwd=cwd)
    finally:
        events = FS.end()
    after = snapshot(root)
    res.n += 1
    desc = {"kinds": [kinds[j] for j in order], "cause": cause, "dot": dot, "siblings": [siblings[j] for j in order], "args": args}
    if r.escaped:
        res.violation("escaped-exception", f"{r.exc_type} ({desc})", tb=r.exc_tb)
        return
    rootp = str(root) + os.sep
    inside = [e for e in events if (e.get("path") or "").startswith(rootp)]
    diff = {p: v for p, v in __import__("vlib.monitors", fromlist=["snap_diff"]).snap_diff(before, after).items()}
    if r.exit_code == 2:
        if inside or diff:
            res.violation("usage-error-after-touching-files", f"exit status 2 but the project was touched: events {[(e['ev'], os.path.relpath(e['path'], root)) for e in inside][:6]} "
                          f"diff {diff} ({desc})", **r.brief())
        if not usage:
            res.violation("unexpected-usage-error", f"exit status 2 for an invocation the recipe holds valid ({desc})", **r.brief())
        res.cell("usage-error")
        return
    if usage:
        res.violation("usage-error-not-detected", f"exit status {r.exit_code} although the invocation needs a usage error ({desc})", **r.brief())
        return
    # ---------------- layer 1: what the tool itself reports
    reported_fail = set()
    reported_ok = set()
    for line in r.stdout.splitlines():
        for j, f in enumerate(files):
            for cand in (spelled[j], spelled[j] + ".license"):
                if line.startswith("Error:") and f"'{cand}'" in line:
                    reported_fail.add(j)
                if line.startswith("Successfully changed header of ") and line.endswith(cand):
                    reported_ok.add(j)
    for j in reported_fail:
        f = files[j]
        rel = os.path.relpath(f, root)
        for p in (rel, rel + ".license"):
            if before.get(p) != after.get(p):
                key = "empty-license-sibling-left-behind" if p.endswith(".license") and p not in before and after.get(p, ("", 1))[1] == 0 \
                    else "failed-file-changed"
                res.violation(key, f"{p} differs after a run that reported failure for it: before={before.get(p)} after={after.get(p)} ({desc})",
                              stdout=r.stdout[-500:])
        mine = [e for e in inside if e["path"] in (str(f), str(f) + ".license")]
        if mine and all(before.get(os.path.relpath(e["path"], root)) == after.get(os.path.relpath(e["path"], root)) for e in mine):
            res.cell("transient-event-on-failed-file")
    want_exit = 1 if reported_fail else 0
    if r.exit_code != want_exit:
        res.violation("exit-status-vs-reported-failures", f"exit status {r.exit_code} but {len(reported_fail)} files reported failed ({desc})", stdout=r.stdout[-400:])
    # ---------------- layer 2: expected failures
    for j, e in exp.items():
        f = files[j]
        rel = os.path.relpath(f, root)
        target = rel + ".license" if (siblings[j] or kinds[j] == "bin" or dot == "--force-dot-license" or
                                      (kinds[j] in UNREC and dot == "--fallback-dot-license")) else rel
        if e == "fail" and j not in reported_fail:
            res.violation(f"must-fail-not-reported:{cause}", f"{rel} ({kinds[j]}) must fail ({cause}) but was not reported failed ({desc})", stdout=r.stdout[-400:])
        elif e == "ok":
            if j in reported_fail:
                res.violation(f"must-succeed-failed:{cause}:{kinds[j]}", f"{rel} must succeed but was reported failed ({desc})", stdout=r.stdout[-400:])
            elif before.get(target) == after.get(target):
                res.violation("remaining-file-not-processed", f"{rel}: a file after/before a failing one was not annotated ({desc})", stdout=r.stdout[-400:])
        elif e == "skip" and (before.get(rel) != after.get(rel) or (rel + ".license") in after and (rel + ".license") not in before):
            res.violation("skipped-file-changed", f"{rel} was to be skipped but changed ({desc})")
    if any(e == "fail" for e in exp.values()) and any(e == "ok" for e in exp.values()):
        res.sigs.add(short_hash(desc["kinds"], cause, dot, desc["siblings"]))
    res.cell("cause:" + cause)
    res.cell("dot:" + str(dot))
    res.cell(f"failing:{sum(1 for e in exp.values() if e == 'fail')}/{nfiles}")
    if res.sample is None and any(e == "fail" for e in exp.values()):
        res.sample = {"desc": desc, "expected": {os.path.basename(str(files[j])): e for j, e in exp.items()}, "exit": r.exit_code,
                      "stdout": r.stdout.splitlines()[:6]}


def run_case(case, ctx):
    res = Res()
    rng = rng_for(ctx.seed, "c11", case["k"])
    root = ctx.scratch / f"c11-{case['k']}"
    root.mkdir()
    annot.install_templates(root)
    try:
        for i in range(case["n"]):
            run_one(res, ctx, root, rng, i)
    finally:
        shutil.rmtree(root, ignore_errors=True)
    return res.out()
