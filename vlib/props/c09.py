"""C09 Annotate accumulates information and never drops any (histories).

A running model anchored on observations: after every step of a command sequence the
information read back must include what was read back after the previous step plus what the
step requested; failed / skipped steps must leave the bytes alone.
"""

import os
import shutil

from .. import annot, trees
from ..models import notice
from ..monitors import Contracts, run_cli
from ..util import Res, rng_for, short_hash

ID = "C09"
LEVEL = "exploration"
RULE = ("sequences of 2-6 (quick) / 2-12 (thorough) annotate invocations on one file; every step draws holders, licences, "
        "contributors, prefix, years, style, --multi-line, --no-replace, --merge-copyrights, --skip-existing, template, dot-license "
        "mode; start states {empty, code, foreign header, header written by the tool}; the invariant is checked after every step; "
        "non-trivial = history with >= 2 successful steps; distinct = distinct option-signature sequences")
ASSUMPTIONS = ["the year-range clause of --merge-copyrights is asserted right after a merging step, in histories with a constant "
               "comment style and without --no-replace (otherwise older headers are legitimately out of the merger's sight)",
               "contributors are read with the tool's own extractor from the header carrier"]
MIN_NONTRIVIAL = {"quick": 300, "thorough": 15000}

HOLDERS = ["Jane Doe", "Example Corp. <https://example.com>", "Zoë Müller", "ACME, Inc.", "The X Authors", "名前 太郎", "2600 Hacker Collective"]
LICS = ["MIT", "GPL-3.0-or-later", "Apache-2.0 OR MIT", "0BSD", "LicenseRef-own-1.0", "GPL-2.0-or-later WITH Classpath-exception-2.0",
        "Apache-2.0 OR (Apache-2.0 AND LicenseRef-extra-terms)"]
CONTRIBS = ["Ann C", "Bob <bob@example.com>", "Çağrı",
            # names ending in letters or signs that some comment marker is made of (dnl, REM, c, .., !, %)
            # (but not in the whole mirrored marker: 'Bang!' under '!', 'Joan of Arc' under Fortran's 'c' are the listed C02 finding)
            "Mary Holland", "Acme Inc.", "SYSTEM REM", "Ellen"]
RENDERS_CONTRIB = {None, "custom", "commented"}


def generate(tier, seed):
    n = 1200 if tier == "quick" else 40000
    per = 10
    return [{"k": k, "n": per} for k in range(n // per)]


def setup(ctx):
    ctx.state["types"] = [t for t in annot.type_table() if not t["uncommentable"] and not t["empty"]]
    ctx.state["styles"] = trees.style_table()
    ctx.state["names"] = annot.style_names()


def holder_lines(lines):
    out = {}
    for ln in lines:
        d = notice.decompose(ln)
        if d:
            out.setdefault(d[2], []).append(d[1])
    return out


def beyond_window(f):
    """(copyright lines, licence expressions) read by the tool's extractor from the whole carrier when its last tag lies beyond the
    first 4096 bytes and the file has no snippet marker; None otherwise."""
    import reuse.extract as ex

    data = open(annot.carrier_of(f), "rb").read()
    last = max(data.rfind(m) for m in (b"SPDX-License-Identifier", b"SPDX-FileCopyrightText", b"SPDX-FileContributor", b"Copyright", "©".encode()))
    if last >= 0:
        nl = [x for x in (data.find(b"\n", last), data.find(b"\r", last)) if x >= 0]
        last = min(nl) if nl else len(data)   # the end of the last line that carries a tag or notice
    if last <= 4096 or b"SPDX-SnippetBegin" in data:
        return None
    try:
        info = ex.extract_reuse_info(data.decode("utf-8", "replace").replace("\r\n", "\n").replace("\r", "\n"))
    except Exception:  # noqa
        return None
    return set(info.copyright_lines), {str(e) for e in info.spdx_expressions}


def run_history(res, ctx, root, rng, hidx, max_steps, con):
    styles = ctx.state["styles"]
    t = rng.choice(ctx.state["types"])
    d = root / f"h{hidx}"
    d.mkdir()
    f = d / t["fname"]
    rel = os.path.relpath(f, root)
    start = rng.choice(["empty", "code", "foreign", "tool", "handwritten", "handwritten", "code-multibyte"])
    if start == "empty":
        f.write_text("")
    elif start == "code":
        f.write_text("K1 code\nK2 code\n")
        if rng.random() < 0.4:
            # information the project states about the file elsewhere (an aggregate table): the file itself has none, so there
            # is nothing --skip-existing could mean to skip
            (d / "REUSE.toml").write_text('version = 1\n\n[[annotations]]\npath = "**"\nprecedence = "aggregate"\n'
                                          'SPDX-FileCopyrightText = "2010 Table Holder"\nSPDX-License-Identifier = "BSD-2-Clause"\n')
            res.cell("start:code-covered-by-aggregate-table")
    elif start == "code-multibyte":
        # valid UTF-8 whose multi-byte characters lie across the offsets where readers of fixed-size chunks cut (512, 1024, 4096, 8192)
        body = bytearray(b"".join(b"K%04d = 'filler filler filler filler'\n" % i for i in range(260)))
        for off in (511, 1023, 4095, 8191):
            body[off:off + 2] = "é".encode("utf-8")
        body[2047:2050] = "名".encode("utf-8")
        assert b"\n" in bytes(body) and bytes(body).decode("utf-8")
        f.write_bytes(bytes(body))
    elif start == "foreign":
        f.write_text("@@ SPDX-FileCopyrightText: 2001 Foreign Holder\n@@ SPDX-License-Identifier: ISC\n\nK1 code\n")
    elif start == "handwritten":
        # a header a person wrote, in the file's own comment style: compact and spaced year ranges, mixed prefixes
        hw = [rng.choice(["SPDX-FileCopyrightText: 2015-2017 Hand Writer", "Copyright (C) 2012-2014 Hand Writer", "SPDX-FileCopyrightText: 2011 -2013 Hand Writer",
                          "SPDX-FileCopyrightText: 2009 - 2010 Hand Writer", "Copyright 2016- 2018 Hand Writer",
                          # a list of years is part of the statement as far as the tool is concerned: kept as typed
                          "SPDX-FileCopyrightText: 2016, 2018 Hand Writer", "Copyright (C) 2009, 2011-2013 Hand Writer"]),
              rng.choice(["SPDX-FileCopyrightText: 2003-2005 Mary Sue <mary@example.com>", "© 2001 Mary Sue <mary@example.com>"]),
              "", "SPDX-License-Identifier: Zlib", "SPDX-FileContributor: Hand Contributor"]
        stt = styles[t["short"]]
        blk = trees.comment_block(stt, hw, multi=rng.random() < 0.3)
        if stt["multi"][0] and stt["multi"][2] and not stt["single"] and rng.random() < 0.5:
            # the closing delimiter directly behind the last line of the block (no blank, no line of its own)
            hw2 = [x for x in hw if x] + [rng.choice(["SPDX-FileCopyrightText: 2014 Touching <t@example.com>", "SPDX-FileCopyrightText: 2014 Touching (Holdings)"])]
            lines = trees.comment_block(stt, hw2, multi=True).split("\n")
            blk = "\n".join(lines[:-2] + [lines[-2] + stt["multi"][2]])
        f.write_text(blk + "\n\nK1 code\n")
    else:
        f.write_text("K1 code\n")
        run_cli(["--no-multiprocessing", "--root", str(root), "annotate", "-c", "Earlier Holder", "-l", "CC0-1.0", "--year", "2015", str(f)], cwd=str(root))
    if start in ("foreign", "handwritten", "tool") and rng.random() < 0.2:
        # the same with a long body whose multi-byte characters lie across offsets 512, 1024, 4096, 8192 of the file
        data = bytearray(f.read_bytes().replace(b"K1 code\n", b"".join(b"K%04d = 'filler filler filler filler'\n" % i for i in range(260))))
        body_at = data.find(b"K0000")
        for off in (511, 1023, 4095, 8191):
            if body_at >= 0 and off > body_at and off + 2 < len(data) and b"\n" not in data[off - 1:off + 3]:
                data[off:off + 2] = "é".encode("utf-8")
        bytes(data).decode("utf-8")
        f.write_bytes(bytes(data))
        res.cell("start:multibyte-across-chunk-offsets")
    twin = None
    if rng.random() < 0.15 and f.stat().st_size:
        # the file has a second name (hard link): whichever name a later run uses, it builds on what the earlier runs declared
        twin = d / ("second-name-of-" + f.name)
        os.link(f, twin)
        res.cell("start:file-with-a-second-hard-link")
    merge_history = rng.random() < 0.4
    dot_always = rng.random() < 0.12
    steps = rng.randint(2, max_steps)
    prev, _ = annot.read_back(root)
    prev_c = set(prev[rel]["cop"]) if prev and rel in prev else set()
    prev_l = set(prev[rel]["lic"]) if prev and rel in prev else set()
    prev_contrib = annot.read_contributors(f) or set()
    # what a REUSE.toml says is not the header's; the history is about what the header declares
    table_c, table_l = ({"2010 Table Holder"}, {"BSD-2-Clause"}) if (d / "REUSE.toml").exists() else (set(), set())
    prev_c -= table_c
    prev_l -= table_l
    years_by_holder = {}
    for h, yss in holder_lines(prev_c).items():
        for ys in yss:
            years_by_holder.setdefault(h, set()).update(ys)
    sig = [t["short"], start]
    ok_steps = 0
    style_const = True
    for s in range(steps):
        args = []
        holders = rng.sample(HOLDERS, rng.choice([0, 1, 1, 2]))
        if rng.random() < 0.06:
            # a crowd: the header grows beyond any fixed-size window (4 KiB and more) and later steps have to find all of it
            base = rng.randint(0, 800)
            holders = [f"Crowd Member {base + i:03d} <member{base + i:03d}@example.com>" for i in range(rng.randint(50, 95))]
            res.cell("step:crowd")
        lics = rng.sample(LICS, rng.choice([0, 1, 1, 2]))
        contribs = rng.sample(CONTRIBS, rng.choice([0, 0, 1]))
        if not (holders or lics or contribs):
            lics = [rng.choice(LICS)]
        hostile = rng.random() < 0.06 and holders
        if hostile:
            holders = [holders[0] + rng.choice([" */", " -->", " #}", " }"])] + holders[1:]
        prefix = rng.choice(list(notice.PREFIXES)) if rng.random() < 0.4 else None
        r = rng.random()
        if r < 0.2 and not any(h[:4].isdigit() for h in holders):
            years, ytext = None, None   # (a name that starts with four digits is only ever stated with a year in front of it)
        elif r < 0.8:
            y = str(rng.randint(1990, 2030))
            years, ytext = [y], y
        else:
            a, b = sorted([str(rng.randint(1990, 2009)), str(rng.randint(2010, 2030))])
            years, ytext = [a, b], f"{a} - {b}"
        for h in holders:
            args += ["-c", h]
        for lic in lics:
            args += ["-l", lic]
        for c in contribs:
            args += ["--contributor", c]
        if prefix:
            args += ["--copyright-prefix", prefix]
        if years is None:
            args.append("--exclude-year")
        else:
            for y in years:
                args += ["--year", y]
        st = styles[t["short"]]
        opts = []
        merge = merge_history and rng.random() < 0.7
        if merge:
            opts.append("--merge-copyrights")
        if not merge_history:
            if rng.random() < 0.15:
                opts.append("--no-replace")
            if rng.random() < 0.12:
                opts += ["--style", rng.choice(ctx.state["names"])]
                style_const = False
        if "--style" not in opts and rng.random() < 0.2 and st["multi"][0] and st["multi"][2]:
            opts.append("--multi-line")
        skip = rng.random() < 0.1
        if skip:
            opts.append("--skip-existing")
        template = None
        r = rng.random()
        if r < 0.12:
            template = "custom"
        elif r < 0.2:
            template = "nocontrib"
        elif r < 0.25:
            template = "droplic"
        elif r < 0.3 and t["short"] == "python" and "--style" not in opts and "--multi-line" not in opts:
            template = "commented"
        if template:
            opts += ["--template", annot.template_arg(template)]
        dot = dot_always or (rng.random() < 0.03)
        if dot and "--style" not in opts:
            opts.append("--force-dot-license")
        cwd, gargs, fargs = annot.place(rng, root, [f])
        full = gargs + ["annotate"] + args + opts + fargs
        before_bytes = (f.read_bytes(), open(str(f) + ".license", "rb").read() if os.path.exists(str(f) + ".license") else None)
        had_license_file = before_bytes[1] is not None
        r = None
        if had_license_file and rng.random() < 0.3:
            # the sidecar cannot be read this once (EIO at its n-th opening): the step fails and what the sidecar said is still there
            from ..monitors import FS

            FS.install()
            side = str(f) + ".license"
            nth = {"n": 0, "at": rng.choice([1, 2, 2, 3])}

            def eio(p, nth=nth):
                nth["n"] += 1
                return OSError(5, "Input/output error (injected)", p) if nth["n"] == nth["at"] else None

            FS.fail_open = {side: eio}
            FS.begin()
            try:
                rf = run_cli(full, cwd=cwd)
            finally:
                FS.end()
                FS.fail_open = {}
            fired = nth["n"] >= nth["at"]
            res.cell("step:sidecar-read-fault:" + ("fired" if fired else "not-reached"))
            if not fired:
                r = rf
            elif open(side, "rb").read() != before_bytes[1] or f.read_bytes() != before_bytes[0]:
                lost = [ln for ln in before_bytes[1].decode("utf-8", "replace").splitlines() if ln.strip() and ln.encode() not in open(side, "rb").read()]
                if lost or f.read_bytes() != before_bytes[0]:
                    res.violation("sidecar-rewritten-after-read-error", f"step {s}: FILE.license could not be read (injected EIO), annotate exit "
                                  f"{rf.exit_code}, and lines of it are gone: {lost[:4]}", args=args + opts)
                    return
                return  # rewritten with everything kept: not the model's state any more, stop this history
        if r is None:
            r = run_cli(full, cwd=cwd)
        res.n += 1
        sig.append("+".join(sorted(o for o in opts if o.startswith("--"))) + (":" + template if template else ""))
        if r.escaped:
            res.violation("escaped-exception", f"step {s}: {r.exc_type}", tb=r.exc_tb, args=args + opts)
            return
        after_bytes = (f.read_bytes(), open(str(f) + ".license", "rb").read() if os.path.exists(str(f) + ".license") else None)
        success = r.exit_code == 0 and ("Successfully changed header" in r.stdout or after_bytes != before_bytes)
        if not success:
            # failed or skipped: nothing may change (an empty .license created on the way is C11's finding, not this one)
            changed = after_bytes[0] != before_bytes[0] or (before_bytes[1] is not None and after_bytes[1] != before_bytes[1])
            if changed:
                res.violation("failed-or-skipped-step-changed-file", f"step {s} exit {r.exit_code} ({r.stdout.strip()[:120]}) but the file changed",
                              args=args + opts)
                return
            res.cell("step:skipped" if "Skipped" in r.stdout else "step:failed")
            blob = before_bytes[0] + (before_bytes[1] or b"")
            if "Skipped" in r.stdout and not any(m in blob for m in (b"SPDX-", b"opyright", "©".encode())):
                res.violation("skip-existing-skips-file-without-information-of-its-own", f"step {s}: --skip-existing skipped a file that states "
                              "nothing itself (what REUSE.toml says about it is not in the file)", args=args + opts)
                return
            if after_bytes[1] is not None and before_bytes[1] is None:
                return  # tree state is no longer the model's (stray .license): stop this history
            continue
        ok_steps += 1
        if twin is not None and twin.read_bytes() != f.read_bytes():
            res.violation("annotated-file-replaced:other-name-keeps-old-content", f"step {s}: the file's second name (hard link) still holds the "
                          "old content: the declarations of this run are lost to whoever uses that name", args=args + opts)
            return
        cur, rr = annot.read_back(root)
        if cur is None or rel not in cur:
            if f.stat().st_size == 0:
                return  # an empty file carries its header in .license and is not a covered file
            res.violation("annotated-file-not-linted", f"step {s}: lint does not report the file", **rr.brief())
            return
        got_c, got_l = cur[rel]["cop"], cur[rel]["lic"]
        whole = beyond_window(f)
        if whole is not None:
            # The header has outgrown the 4 KiB the linter looks at (C02: "tags are looked for in the first 4 KiB").  What lint
            # reports is then short of what was written - the listed finding - and the history is judged on what the tool's
            # reader finds in the whole carrier, so that the model stays exact.
            res.cell("step:header-beyond-read-window")
            if not (whole[0] <= got_c and whole[1] <= got_l):
                res.violation("header-beyond-the-4-KiB-read-window", f"step {s}: annotate wrote a header of which lint reads {len(got_c)} of "
                              f"{len(whole[0])} notices and {len(got_l)} of {len(whole[1])} licences (the block ends beyond byte 4096)",
                              args=(args + opts)[:12], history=sig)
            got_c, got_l = whole
        req_c = {notice.build(prefix or "spdx", ytext, h) for h in holders}
        for h in holders:
            if years:
                years_by_holder.setdefault(h, set()).update(years)
            else:
                years_by_holder.setdefault(h, set())
        hides = "--force-dot-license" in opts and not had_license_file and bool(prev_c or prev_l or prev_contrib)
        if merge:
            # holders remain; licences grow
            gh = holder_lines(got_c)
            want_holders = set(holder_lines(prev_c | req_c))
            if not want_holders <= set(gh):
                key = "force-dot-license-hides-in-file-header" if hides else "merge-step-loses-holder"
                lost = want_holders - set(gh)
                if hostile and all(any(h.startswith(g) and h != g for g in gh) for h in lost):
                    key = "merge-normalises-holder-ending-in-comment-terminator"
                res.violation(key, f"step {s} (--merge-copyrights): holders {sorted(want_holders - set(gh))} no longer declared; read {sorted(got_c)}",
                              args=args + opts, history=sig)
                return
            if style_const and "--no-replace" not in sig[-1] and not hostile and not hides:
                # every holder the (visible) header has ever declared, not only the ones requested in this step
                for h in sorted(years_by_holder):
                    if h == "Foreign Holder":
                        continue
                    ys = years_by_holder.get(h) or set()
                    if not ys:
                        continue
                    cover = any(yl and min(yl) <= min(ys) and max(yl) >= max(ys) for yl in gh.get(h, []))
                    if not cover and start != "foreign" and all("--no-replace" not in x and "--style" not in x for x in sig[2:]):
                        res.violation("merge-year-range-not-covering", f"step {s}: holder {h!r} has year lists {gh.get(h)} but {sorted(ys)} were stated",
                                      args=args + opts, history=sig)
                        return
        else:
            if not (prev_c | req_c) <= got_c:
                key = "force-dot-license-hides-in-file-header" if hides else "copyright-dropped"
                res.violation(key, f"step {s}: copyright lines {sorted((prev_c | req_c) - got_c)} no longer declared; read {sorted(got_c)}",
                              args=args + opts, history=sig)
                return
        if not (prev_l | set(lics)) <= got_l:
            key = "force-dot-license-hides-in-file-header" if hides else "licence-dropped"
            res.violation(key, f"step {s}: licences {sorted((prev_l | set(lics)) - got_l)} no longer declared; read {sorted(got_l)}",
                          args=args + opts, history=sig)
            return
        gcon = annot.read_contributors(f) or set()
        if template in RENDERS_CONTRIB and not hides:
            if not (set(contribs) | prev_contrib) <= gcon:
                res.violation("contributor-dropped", f"step {s}: contributors {sorted((set(contribs) | prev_contrib) - gcon)} no longer declared under "
                              f"template {template}; read {sorted(gcon)}", args=args + opts, history=sig)
                return
        prev_c, prev_l, prev_contrib = set(got_c) - table_c, set(got_l) - table_l, set(gcon)
        if hides:
            # the new .license has replaced the file's own header as the carrier (listed finding): from here on the model
            # knows only what is visible there
            years_by_holder = {}
            for h, yss in holder_lines(prev_c).items():
                for ys in yss:
                    years_by_holder.setdefault(h, set()).update(ys)
        res.cell("step:ok")
        res.cell("shape:" + ("dot-license" if annot.carrier_of(f).endswith(".license") else "in-file"))
        if merge:
            res.cell("step:merge")
    if ok_steps >= 2:
        res.sigs.add(short_hash(sig))
    if hidx == 0 and res.sample is None:
        res.sample = {"history": sig, "final_copyrights": sorted(prev_c), "final_licences": sorted(prev_l)}


def run_batch(res, ctx, root, rng):
    """One invocation over several files whose headers agree in notices and licences and differ in contributors only: each file
    keeps what *it* declared (nothing computed for one file may be reused for the next)."""
    d = root / "batch"
    d.mkdir()
    own = {}
    ext, cm = rng.choice([(".py", "# "), (".c", "// "), (".sh", "# ")])
    for j, who in enumerate(["Alice Example", "Bob Example", "Carol Example", None]):
        f = d / f"twin{j}{ext}"
        lines = ["SPDX-FileCopyrightText: 2019 Same Holder", "SPDX-License-Identifier: MIT"] + ([f"SPDX-FileContributor: {who}"] if who else [])
        f.write_text("".join(cm + ln + "\n" for ln in lines) + "\nK code\n")
        own[f] = {who} if who else set()
    extra = rng.choice([["--contributor", "Dora Added"], ["-c", "Extra Holder", "--year", "2022"], ["-l", "0BSD"]])
    recursive = rng.random() < 0.5
    r = run_cli(["--no-multiprocessing", "--root", str(root), "annotate"] + extra + (["-r", str(d)] if recursive else [str(f) for f in own]), cwd=str(root))
    res.n += 1
    if r.escaped or r.exit_code != 0:
        res.violation("batch-request-refused", f"annotate exit {r.exit_code} {r.exc_type} on a plain batch", **r.brief())
        return
    for f, who in own.items():
        got = annot.read_contributors(f) or set()
        want = set(who) | ({"Dora Added"} if "--contributor" in extra else set())
        if not want <= got or (got - want):
            res.violation("batch:contributors-of-another-file", f"{f.name}: contributors {sorted(got)} after one run over {len(own)} files, it declared "
                          f"{sorted(who)} before ({' '.join(extra)})", text=f.read_text()[:400])
            return
    res.cell("batch:twins-differing-in-contributors")


def run_case(case, ctx):
    res = Res()
    rng = rng_for(ctx.seed, "c09", case["k"])
    root = ctx.scratch / f"c09-{case['k']}"
    root.mkdir()
    annot.install_templates(root)
    con = Contracts()
    import reuse.extract as ex

    def cond(kw):
        # create_header(result) must still contain what the old header and the request contained
        try:
            new = ex.extract_reuse_info(kw["result"])
            req = kw["reuse_info"]
            old = ex.extract_reuse_info(kw["header"]) if kw.get("header") else None
        except Exception:  # noqa
            return []
        lost = {str(e) for e in req.spdx_expressions} - {str(e) for e in new.spdx_expressions}
        if old is not None:
            lost |= {str(e) for e in old.spdx_expressions} - {str(e) for e in new.spdx_expressions}
        if lost:
            return [{"key": "in-situ-create-header-loses-licence", "what": f"create_header result lacks licences {sorted(lost)}"}]
        if not kw.get("merge_copyrights"):
            lc = set(req.copyright_lines) | (set(old.copyright_lines) if old else set())
            if not lc <= set(new.copyright_lines):
                return [{"key": "in-situ-create-header-loses-copyright", "what": f"create_header result lacks {sorted(lc - set(new.copyright_lines))}"}]
        return []

    attached = con.attach("reuse.header", "create_header", cond)
    try:
        for i in range(case["n"]):
            run_history(res, ctx, root, rng, i, 6 if ctx.tier == "quick" else 12, con)
        run_batch(res, ctx, root, rng)
        ctx.count("contract_evals_create_header", con.evals.get("reuse.header.create_header", 0))
        if not attached:
            ctx.count("contract_skipped")
        for v in con.drain():
            res.violation(v["key"], v["what"])
    finally:
        con.detach()
        shutil.rmtree(root, ignore_errors=True)
    return res.out()


def inconclusive_reasons(counters, finish, feats, tier):
    if counters.get("contract_evals_create_header", 0) == 0 and not counters.get("contract_skipped"):
        return ["contract on create_header never evaluated"]
    return []
