"""C19 download never overwrites and supplies exactly the missing licences.

The network is a loopback HTTP stub (per-identifier outcome: 200, 404, 500, connection closed
without a response, connection reset in mid-body) substituted by re-binding the base URL that
download_license reads at call time.  Observed: tree snapshots, the stub's request log, exit
status, and a following `reuse lint --json`.
"""

import http.server
import json
import os
import shutil
import socket
import threading

from .. import trees
from ..monitors import run_cli, snap_diff, snapshot
from ..util import Res, rng_for, short_hash

ID = "C19"
LEVEL = "fault_enumeration"
RULE = ("request sets of 1-5 identifiers (valid, deprecated, unknown, with '+', LicenseRef- with / without --source file or directory) x "
        "LICENSES/ {absent, empty, containing the target} x cwd {root, subdirectory, inside LICENSES/} x VCS y/n x --root y/n x "
        "per-identifier network outcome {200, 404, 500, closed without response, reset in mid-body} with the failure in every "
        "batch position; --output; --all on trees with missing licences followed by lint; non-trivial = request with a network "
        "fault or an existing target; distinct = distinct (request classes, outcomes, state, cwd)")
ASSUMPTIONS = ["the loopback stub stands in for raw.githubusercontent.com; an exception escaping on a transfer fault is counted "
               "(escaped_on_transfer_fault) but only 'non-zero exit and nothing left on disk' is asserted for it, as the statement says"]
MIN_NONTRIVIAL = {"quick": 200, "thorough": 8000}

VALID = ["MIT", "0BSD", "Apache-2.0", "GPL-3.0-or-later", "ISC", "CC0-1.0", "Zlib"]
DEPRECATED = ["GPL-2.0", "AGPL-3.0", "LGPL-2.1"]
UNKNOWN = ["NotALicense-1.0", "mit", "Foo"]
OUTCOMES = ["200", "200", "200", "404", "500", "closed", "reset", "refused", "refused", "204", "206", "202"]


class Stub:
    def __init__(self):
        self.behaviour = {}
        self.log = []
        stub = self

        class H(http.server.BaseHTTPRequestHandler):
            def log_message(self, *a):
                pass

            def do_GET(self):
                name = self.path.rsplit("/", 1)[-1]
                stub.log.append(name)
                b = stub.behaviour.get(name, "404")
                if b == "200":
                    body = stub.text_for(name).encode()
                    self.send_response(200)
                    self.send_header("Content-Length", str(len(body)))
                    self.end_headers()
                    self.wfile.write(body)
                elif b in ("404", "500"):
                    self.send_error(int(b))
                elif b in ("204", "202"):
                    # a success status that carries no licence text
                    self.send_response(int(b))
                    self.send_header("Content-Length", "0")
                    self.end_headers()
                elif b == "206":
                    # a part of the text only
                    body = stub.text_for(name).encode()[:40]
                    self.send_response(206)
                    self.send_header("Content-Length", str(len(body)))
                    self.send_header("Content-Range", "bytes 0-39/5000")
                    self.end_headers()
                    self.wfile.write(body)
                elif b == "closed":
                    self.connection.shutdown(socket.SHUT_RDWR)
                    self.connection.close()
                else:  # reset in mid-body
                    self.send_response(200)
                    self.send_header("Content-Length", "5000")
                    self.end_headers()
                    self.wfile.write(b"partial licence text ")
                    self.wfile.flush()
                    try:
                        self.connection.shutdown(socket.SHUT_RDWR)
                    except OSError:
                        pass
                    self.connection.close()

        self.server = http.server.ThreadingHTTPServer(("127.0.0.1", 0), H)
        self.server.daemon_threads = True
        self.port = self.server.server_address[1]
        self.thread = threading.Thread(target=self.server.serve_forever, daemon=True)
        self.thread.start()

    @staticmethod
    def text_for(name):
        return f"Full text of {name}\nline two\nünïcode line\n" * 3


def generate(tier, seed):
    n = 1500 if tier == "quick" else 100000
    per = 15
    cases = [{"kind": "req", "k": k, "n": per} for k in range(n // per)]
    for k in range(80 if tier == "quick" else 1000):
        cases.append({"kind": "all", "k": k})
    return cases


def setup(ctx):
    import reuse.download as dl

    stub = Stub()
    ctx.state["stub"] = stub
    dl._SPDX_REPOSITORY_BASE_URL = f"http://127.0.0.1:{stub.port}/text/"
    ctx.state["styles"] = trees.style_table()


def run_req(res, ctx, rng, base, idx):
    stub = ctx.state["stub"]
    proj = base / f"p{idx}"
    if rng.random() < 0.12:
        proj = proj / "LICENSES"   # a project whose own directory happens to be called LICENSES
    proj.mkdir(parents=True)
    (proj / "src").mkdir()
    (proj / "src" / "m.py").write_text("# SPDX-License-Identifier: MIT\n# SPDX-FileCopyrightText: 2020 J\n")
    git = rng.random() < 0.3
    lic_state = rng.choice(["absent", "empty", "has-target", "has-target"])
    n = rng.randint(1, 5)
    ids = []
    for _ in range(n):
        r = rng.random()
        if r < 0.45:
            i = rng.choice(VALID)
        elif r < 0.55:
            i = rng.choice(DEPRECATED)
        elif r < 0.65:
            i = rng.choice(UNKNOWN)
        elif r < 0.8:
            i = rng.choice(VALID) + "+"
        else:
            i = "LicenseRef-" + rng.choice(["custom", "x.y", "Acme-1", "Unknown-origin", "VendorUnknown"])
        ids.append(i)
    ids = list(dict.fromkeys(ids))
    stripped = list(dict.fromkeys(i[:-1] if i.endswith("+") else i for i in ids))
    licdir = proj / "LICENSES"
    existing = {}
    if lic_state != "absent":
        licdir.mkdir()
    if lic_state == "has-target":
        for i in stripped:
            if rng.random() < 0.5:
                if rng.random() < 0.2:
                    # a link to nowhere sits where the text would go (the shared licence store is not mounted): it is there,
                    # nothing is added, and nothing appears where it points to
                    os.symlink(str(base / f"unmounted{idx}" / f"{i}.txt"), licdir / f"{i}.txt")
                    (base / f"unmounted{idx}").mkdir(exist_ok=True)
                    existing[i] = True
                    continue
                # (an existing file of zero bytes - a placeholder somebody committed - is an existing file like any other)
                (licdir / f"{i}.txt").write_text(f"pre-existing text of {i}\n" if rng.random() < 0.65 else "")
                existing[i] = True
    if git:
        trees.git_init(proj)
    # source for LicenseRef
    source = None
    src_mode = rng.choice([None, None, "file", "dir", "dir-missing", "dir-similar"])
    refs = [i for i in stripped if i.startswith("LicenseRef-")]
    srcdir = base / f"src{idx}"
    if refs and src_mode:
        srcdir.mkdir()
        if src_mode == "file":
            source = srcdir / "some-text.txt"
            source.write_text("custom licence text from a file\n")
        else:
            source = srcdir
            if src_mode == "dir":
                for i in refs:
                    (srcdir / f"{i}.txt").write_text(f"custom text of {i}\n")
            if src_mode in ("dir", "dir-similar"):
                # neighbours whose names merely begin like the identifier: other licences (or other things) altogether
                for i in refs:
                    for suffix in (".v2.txt", "-old.txt", ".md", ".txt.bak"):
                        (srcdir / f"{i}{suffix}").write_text(f"NOT the text of {i}\n")
    else:
        src_mode = None
    outcomes = {}
    for i in stripped:
        if not i.startswith("LicenseRef-"):
            o = rng.choice(OUTCOMES)
            if i in UNKNOWN and o == "200":
                o = "404"
            outcomes[i] = o
    stub.behaviour = {f"{i}.txt": o for i, o in outcomes.items()}
    stub.log.clear()
    # cwd and root
    cwd_kind = rng.choice(["root", "sub", "licenses", "root", "sub", "licenses", "foreign-licenses"])
    if cwd_kind == "licenses" and lic_state == "absent":
        cwd_kind = "root"
    foreign = base / f"elsewhere{idx}" / "LICENSES"
    if cwd_kind == "foreign-licenses":
        foreign.mkdir(parents=True)   # a directory of that name which has nothing to do with the project
    cwd = {"root": proj, "sub": proj / "src", "licenses": licdir, "foreign-licenses": foreign}[cwd_kind]
    use_root = rng.random() < 0.5 or cwd_kind == "foreign-licenses"
    gargs = ["--no-multiprocessing"] + (["--root", str(proj)] if use_root else [])
    # where the tool takes the project root to be
    eff_root = proj if (use_root or git) else cwd
    # without version control a root that is itself called LICENSES is taken to *be* the licence directory
    target_dir = eff_root if (eff_root.name == "LICENSES" and not git) else eff_root / "LICENSES"
    output = None
    args = ["download"]
    if len(ids) == 1 and rng.random() < 0.25:
        output = base / f"out{idx}" / "custom-name.txt"
        output.parent.mkdir()
        if rng.random() < 0.3:
            output.write_text("already here\n")
        args += ["--output", str(output)]
    if source is not None:
        args += ["--source", str(source)]
    args += ids
    before_p, before_b = snapshot(proj), snapshot(base, with_mtime=True)
    # "refused": the connection for that one identifier cannot be opened at all (failpoint at the library boundary; the
    # loopback stub serves the others)
    import urllib.error
    import urllib.request

    real_urlopen = urllib.request.urlopen

    def urlopen_shim(url, *a, **k):
        name = str(getattr(url, "full_url", url)).rsplit("/", 1)[-1]
        if stub.behaviour.get(name) == "refused":
            ctx.count("refused_injections")
            raise urllib.error.URLError(ConnectionRefusedError(111, "Connection refused (injected)"))
        return real_urlopen(url, *a, **k)

    urllib.request.urlopen = urlopen_shim
    try:
        r = run_cli(gargs + args, cwd=str(cwd))
    finally:
        urllib.request.urlopen = real_urlopen
    after_b = snapshot(base, with_mtime=True)
    res.n += 1
    desc = {"ids": ids, "outcomes": outcomes, "licenses": lic_state, "existing": sorted(existing), "cwd": cwd_kind, "root": use_root, "git": git,
            "source": src_mode, "output": bool(output)}
    diff = snap_diff(before_b, after_b, ignore_prefixes=(f"p{idx}/.git",))
    fault = any(o in ("closed", "reset") for o in outcomes.values())
    if r.escaped:
        if fault:
            ctx.count("escaped_on_transfer_fault")
        else:
            res.violation(f"escaped-exception:{r.exc_type}", f"{r.exc_type} left main() without a transfer fault ({desc})", tb=r.exc_tb)
            return
    # ---- nothing existing may change
    for rel, what in diff.items():
        if what in ("changed", "removed", "touched") and before_b.get(rel, ("",))[0] == "f":
            res.violation("existing-file-altered", f"{rel} {what} by download ({desc})", **r.brief())
            return
    added = {rel for rel, what in diff.items() if what == "added" and after_b[rel][0] == "f"}
    # ---- expected files
    exp_files = {}
    failed = set()
    for i in stripped:
        dest = output if output is not None else target_dir / f"{i}.txt"
        rel = os.path.relpath(dest, base)
        if rel in before_b:
            failed.add(i)
            continue
        if i.startswith("LicenseRef-"):
            if src_mode is None:
                exp_files[rel] = b""
            elif src_mode == "file":
                exp_files[rel] = b"custom licence text from a file\n"
            elif src_mode == "dir":
                exp_files[rel] = f"custom text of {i}\n".encode()
            else:
                failed.add(i)
        elif outcomes[i] == "200":
            exp_files[rel] = Stub.text_for(f"{i}.txt").encode()
        else:
            failed.add(i)
    # ---- new files only where they belong, never partial
    for rel in added:
        if rel not in exp_files:
            key = "partial-or-stray-file-after-failed-transfer" if any(rel.endswith(f"/{i}.txt") for i in failed) else "file-outside-documented-place"
            res.violation(key, f"download created {rel} ({after_b[rel][1]} bytes), not expected ({desc})", **r.brief())
            return
        data = open(base / rel, "rb").read()
        if data != exp_files[rel]:
            res.violation("licence-text-altered-or-truncated", f"{rel} holds {len(data)} bytes, expected {len(exp_files[rel])} ({desc})")
            return
    if not r.escaped:
        missing = set(exp_files) - added
        if missing:
            res.violation("licence-not-supplied", f"expected new files {sorted(missing)} were not created ({desc})", **r.brief())
            return
        want_exit = 1 if failed else 0
        if r.exit_code != want_exit:
            res.violation("exit-status", f"exit {r.exit_code}, expected {want_exit} (failed: {sorted(failed)}) ({desc})", **r.brief())
            return
    elif r.exit_code == 0:
        res.violation("exit-status-zero-after-escape", f"exit 0 although {r.exc_type} escaped ({desc})")
        return
    # ---- the stub's view
    for name in stub.log:
        if name.startswith("LicenseRef-"):
            res.violation("licenseref-requested-from-network", f"the stub received a request for {name} ({desc})")
            return
        if name.endswith("+.txt"):
            res.violation("plus-form-requested", f"the stub received a request for {name} ({desc})")
            return
    if any(rel.endswith("+.txt") for rel in added):
        res.violation("plus-form-stored", f"a file with '+' in its name was stored: {sorted(added)}")
        return
    if fault or existing or failed:
        res.sigs.add(short_hash(sorted(desc.items(), key=str)))
    res.cell("cwd:" + cwd_kind)
    res.cell("licenses:" + lic_state)
    for o in outcomes.values():
        res.cell("outcome:" + o)
    if src_mode:
        res.cell("source:" + src_mode)
    if output:
        res.cell("output-option")
    if res.sample is None and failed and exp_files:
        res.sample = {"desc": desc, "exit": r.exit_code, "created": sorted(added), "stdout": r.stdout.splitlines()[:6]}


def run_all(case, ctx, res):
    """download --all on a tree with missing licences; afterwards lint must report none missing."""
    stub = ctx.state["stub"]
    rng = rng_for(ctx.seed, "c19all", case["k"])
    root = ctx.scratch / f"c19-all-{case['k']}"
    try:
        recipe = trees.gen_recipe(rng, n_files=rng.randint(3, 8), defects=["missing-text"] * rng.randint(1, 3), global_mode=rng.choice(["none", "toml"]))
        trees.build(recipe, root, ctx.state["styles"])
        # files using deprecated, '+', exception and unknown identifiers whose texts are missing as well
        spdx = trees.spdx_lists()["all"]
        extra_ids = rng.sample(["GPL-2.0", "eCos-2.0+", "AGPL-3.0", "LGPL-2.1+", "Classpath-exception-2.0", "Not-A-Licence-1.0", "BSD-2-Clause-FreeBSD"],
                               rng.randint(0, 3))
        for j, i in enumerate(extra_ids):
            (root / f"extra{j}.py").write_text(f"# SPDX-FileCopyrightText: 2020 E\n# SPDX-License-Identifier: {i if 'exception' not in i else 'MIT WITH ' + i}\n")
        if case["k"] % 4 == 1:
            # a repository whose ignore rules happen to match licence texts: what is in LICENSES/ counts, tracked or not
            trees.git_init(root)
            (root / ".gitignore").write_text("LICENSES/*.txt\n*.orig\n")
            trees.git(root, "add", "-A", check=False)
            trees.git(root, "commit", "-q", "-m", "init", check=False)
            res.cell("all:git-ignoring-licence-texts")
        r0 = run_cli(["--no-multiprocessing", "--root", str(root), "lint", "--json"], cwd=str(root))
        try:
            missing = set(json.loads(r0.stdout)["non_compliant"]["missing_licenses"])
        except ValueError:
            res.violation("lint-gives-no-report", f"lint --json exit {r0.exit_code} without a report before download --all", **r0.brief())
            return
        served = {i for i in missing if (i[:-1] if i.endswith("+") else i) in spdx}
        stub.behaviour = {f"{i[:-1] if i.endswith('+') else i}.txt": "200" for i in served}
        stub.log.clear()
        before = snapshot(root)
        r = run_cli(["--no-multiprocessing", "--root", str(root), "download", "--all"], cwd=str(root))
        res.n += 1
        if r.escaped:
            res.violation(f"escaped-exception:{r.exc_type}", "download --all crashed", tb=r.exc_tb)
            return
        after = snapshot(root)
        for rel, what in snap_diff(before, after).items():
            if rel.startswith(".git/") or rel == ".git":
                continue
            if what != "added":
                res.violation("existing-file-altered", f"download --all: {rel} {what}")
                return
            if not rel.startswith("LICENSES"):
                res.violation("file-outside-documented-place", f"download --all created {rel}")
                return
        r2 = run_cli(["--no-multiprocessing", "--root", str(root), "lint", "--json"], cwd=str(root))
        try:
            still = set(json.loads(r2.stdout)["non_compliant"]["missing_licenses"])
        except ValueError:
            res.violation("lint-gives-no-report", f"lint --json exit {r2.exit_code} without a report after download --all", **r2.brief())
            return
        unobtainable = {i for i in missing if i not in served and not i.startswith("LicenseRef-")}
        if still - unobtainable:
            res.violation("obtainable-licence-not-supplied", f"download --all (exit {r.exit_code}) left {sorted(still - unobtainable)} missing although the "
                          f"server has them (were missing: {sorted(missing)})")
            return
        if (r.exit_code == 0) != (not unobtainable):
            res.violation("exit-status", f"download --all exit {r.exit_code}; identifiers that cannot be obtained: {sorted(unobtainable)}", **r.brief())
            return
        if r.exit_code == 0 and still:
            res.violation("missing-after-download-all", f"download --all succeeded but lint still reports missing {sorted(still)} (were {sorted(missing)})")
            return
        if missing:
            res.sigs.add(short_hash("all", sorted(missing), case["k"]))
        res.cell("download-all")
    finally:
        shutil.rmtree(root, ignore_errors=True)


def run_case(case, ctx):
    res = Res()
    if case["kind"] == "all":
        run_all(case, ctx, res)
        return res.out()
    rng = rng_for(ctx.seed, "c19", case["k"])
    base = ctx.scratch / f"c19-{case['k']}"
    base.mkdir()
    try:
        for i in range(case["n"]):
            run_req(res, ctx, rng, base, i)
    finally:
        shutil.rmtree(base, ignore_errors=True)
    return res.out()
