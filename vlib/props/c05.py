"""C05 REUSE.toml path globs match exactly the language the specification defines.

Oracle: reference NFA (models/glob_ref.py) in a narrow and a wide reading; the real
`AnnotationsItem(paths=[g]).matches(p)` must satisfy  narrow(g,p) => impl(g,p) => wide(g,p).
The path quantifier is bounded (exhaustive to length P over a 6-letter alphabet, wildcard
instantiations and random paths beyond).
"""

import itertools
import json
import unicodedata
import shutil

from .. import trees
from ..models import glob_ref
from ..util import Res, chunks, rng_for, short_hash

ID = "C05"
LEVEL = "exploration"
RULE = ("all globs over {a . / * \\} up to length L crossed with all paths over {a b . / * \\} up to length P (DFS sharing NFA "
        "state), L=4,P=5 quick / L=6,P=6 thorough; per glob the wildcard instantiations with strings up to length 3; random globs "
        "up to length 24 over a wide alphabet (regex metacharacters, blank, newline, non-ASCII) with derived and mutated paths; "
        "REUSE.toml trees linted with a contract on AnnotationsItem.matches. evaluations = (glob, path) pairs; non-trivial = glob "
        "contains a wildcard or an escape; distinct = distinct globs")
ASSUMPTIONS = ["the reference NFA is the specification of the language; a glob ending in a lone backslash is grey (not asserted)",
               "path quantifier bounded: a defect whose shortest witness is longer than P and is not hit by instantiation or random "
               "paths would be missed"]
MIN_NONTRIVIAL = {"quick": 500, "thorough": 15000}

G_ALPHA = ["a", ".", "/", "*", "\\"]
P_ALPHA = ["a", "b", ".", "/", "*", "\\"]


def glob_of(idx, length):
    s = []
    for _ in range(length):
        s.append(G_ALPHA[idx % 5])
        idx //= 5
    return "".join(s)


def classify(glob, path, direction):
    """Mechanism key of a disagreement (used only if a finding has to be recorded)."""
    toks = glob_ref.tokenize(glob) or []
    if path.endswith("\n") or "\n" in path:
        return f"newline-in-path-{direction}"
    has_esc_star = "\\*" in glob
    has_g = any(t[0] == "G" for t in toks)
    if has_esc_star:
        return f"escaped-asterisk-{direction}"
    if has_g:
        return f"globstar-{direction}"
    if "\\" in glob:
        return f"escape-{direction}"
    return f"plain-{direction}"


def setup(ctx):
    from reuse.global_licensing import AnnotationsItem

    ctx.state["AI"] = AnnotationsItem


def impl_matcher(ctx, glob):
    item = ctx.state["AI"](paths=[glob])
    return item.matches


def check_pair(res, glob, path, got, nar, wid):
    res.n += 1
    if nar and not got:
        res.violation(classify(glob, path, "missed"), f"glob {glob!r} must match {path!r} (narrow reading) but does not",
                      glob=glob, path=path)
    elif got and not wid:
        res.violation(classify(glob, path, "overmatch"), f"glob {glob!r} matches {path!r}, outside even the wide reading",
                      glob=glob, path=path)


def dfs_check(res, glob, match, nfa_n, nfa_w, P):
    # iterative DFS over all paths up to length P, carrying both NFA state sets
    stack = [("", nfa_n.start, nfa_w.start)]
    while stack:
        p, sn, sw = stack.pop()
        if p:
            got = match(p)
            nar = bool(sn & nfa_n.accept_bit)
            wid = bool(sw & nfa_w.accept_bit)
            res.n += 1
            if (nar and not got) or (got and not wid):
                check_pair(res, glob, p, got, nar, wid)
                res.n -= 1
        if len(p) < P:
            for ch in P_ALPHA:
                n2 = nfa_n.step(sn, ch) if sn else 0
                w2 = nfa_w.step(sw, ch) if sw else 0
                stack.append((p + ch, n2, w2))


def instantiations(toks, rng=None, limit=400):
    """Paths obtained by replacing wildcards with concrete strings (positives and near misses)."""
    s_fill = ["", "a", "x.", "ab", "a/b", "*"]
    g_fill = ["", "a", "/", "a/", "/a", "a/b", "a/b/c", "x\ny"]
    pools = []
    for k, t in enumerate(toks):
        if t[0] == "L":
            pools.append([t[1]])
        elif t[0] == "S":
            pools.append(s_fill)
        else:
            pools.append(g_fill)
    total = 1
    for p in pools:
        total *= len(p)
    if total <= limit:
        for combo in itertools.product(*pools):
            yield "".join(combo)
    else:
        import random

        r = rng or random.Random(0)
        for _ in range(limit):
            yield "".join(r.choice(p) for p in pools)


def generate(tier, seed):
    L, P = (4, 5) if tier == "quick" else (6, 6)
    cases = []
    for length in range(1, L + 1):
        size = 40 if tier == "quick" else 60
        for lo, hi in chunks(0, 5 ** length, size):
            cases.append({"kind": "enum", "len": length, "lo": lo, "hi": hi, "P": P})
    for k in range(36 if tier == "quick" else 1500):
        cases.append({"kind": "multi", "k": k, "n": 150})
    nrand = 4000 if tier == "quick" else 1000000
    for k, (lo, hi) in enumerate(chunks(0, nrand, 250)):
        cases.append({"kind": "rand", "k": k, "n": hi - lo})
    for k in range(16 if tier == "quick" else 60):
        cases.append({"kind": "lint", "k": k})
    return cases


R_ALPHA = list("ab.x/_-") + ["*", "*", "**", "\\*", "\\\\", "\\a", "/", "+", "?", "[", "]", "(", ")", "{", "}", "|", "^", "$", " ",
                              "é", "ü", "\n", "**/", "/**", "*.",
                              # the same letter in two Unicode spellings (precomposed, decomposed), a compatibility character: code
                              # points match only themselves
                              "e\u0301", "\u0301", "\u212b", "\u00c5", "ﬁ"]


def run_case(case, ctx):
    res = Res()
    kind = case["kind"]
    if kind == "enum":
        for idx in range(case["lo"], case["hi"]):
            g = glob_of(idx, case["len"])
            toks = glob_ref.tokenize(g)
            if toks is None:
                # grey: lone trailing backslash; only "does not crash"
                try:
                    impl_matcher(ctx, g)("a")
                except Exception as e:  # noqa
                    res.violation("crash-on-trailing-backslash", f"glob {g!r} raised {type(e).__name__}", glob=g)
                res.cell("grey-trailing-backslash")
                continue
            m = impl_matcher(ctx, g)
            nn, nw = glob_ref.Nfa(toks, False), glob_ref.Nfa(toks, True)
            dfs_check(res, g, m, nn, nw, case["P"])
            for p in instantiations(toks):
                if p:
                    check_pair(res, g, p, m(p), nn.matches(p), nw.matches(p))
            if any(t[0] in "SG" for t in toks) or "\\" in g:
                res.nsig += 1
            for t in toks:
                res.cell("tok-" + t[0])
        if case["lo"] == 0:
            res.sample = {"glob": glob_of(case["hi"] - 1, case["len"]), "paths": "all over {a,b,.,/,*,\\} up to length %d" % case["P"]}
    elif kind == "rand":
        rng = rng_for(ctx.seed, "c05", case["k"])
        for _ in range(case["n"]):
            g = "".join(rng.choice(R_ALPHA) for _ in range(rng.randint(1, 12)))[:24]
            toks = glob_ref.tokenize(g)
            if toks is None:
                continue
            try:
                m = impl_matcher(ctx, g)
            except Exception as e:  # noqa
                res.violation("crash-compiling-glob", f"glob {g!r} raised {type(e).__name__}: {e}", glob=g)
                continue
            nn, nw = glob_ref.Nfa(toks, False), glob_ref.Nfa(toks, True)
            paths = list(instantiations(toks, rng, limit=40))
            for p in list(paths[:20]):
                # mutations: drop / insert / replace one character
                if p:
                    i = rng.randrange(len(p))
                    paths.append(p[:i] + p[i + 1:])
                    paths.append(p[:i] + rng.choice("ab/.*\\x\n") + p[i:])
                    paths.append(p + rng.choice("a/\n."))
                    paths.append(rng.choice("a/x") + p)
            for p in list(paths):
                for form in ("NFC", "NFD", "NFKC"):
                    q = unicodedata.normalize(form, p)
                    if q != p:
                        paths.append(q)
            for p in paths:
                if p:
                    check_pair(res, g, p, m(p), nn.matches(p), nw.matches(p))
            res.sigs.add(short_hash(g))
    elif kind == "multi":
        run_multi(case, ctx, res)
    elif kind == "lint":
        run_lint(case, ctx, res)
    return res.out()


SMALL_GLOBS = ["a", "b", "*.a", "a*", "*", "**", "a/*", "**/a", "a/**", "\\*", "ab", "a.b", "*/b", "a/b", "./a", "a/", "a//b", "a/./b", "a/../b",
               "*/.", "/a", "b.", ".a", "**/*.a", "a\\\\b", "\\a", "a/**/b/**", "a/*.a", "**/b/**", "a**", "a/**/*", "a/b*", "a/**/b",
               "b/**", "*/**", "a/*/**"]
QUERY_PATHS = None


def query_paths():
    global QUERY_PATHS
    if QUERY_PATHS is None:
        from pathlib import PurePosixPath

        out = []
        for n in range(1, 5):
            for t in itertools.product(["a", "b", ".", "/", "*", "\\"], repeat=n):
                p = "".join(t)
                # spellings a root-relative file path can really have
                if not p.startswith("/") and PurePosixPath(p).as_posix() == p and "." not in p.split("/") and ".." not in p.split("/"):
                    out.append(p)
        QUERY_PATHS = out + ["a/b/c.a", "x/y/a", "ab/ba", "a.a", "b.a/a", "a/b/a/b", "a/x.a", "a/c.a", "a/b/x/y", "a/x/b/y", "a/x/b", "a/bb", "b/a/b/a",
                             # a line feed is a character like any other
                             "a\nb", "a/a\nb.a", "a\n/b", "\na", "a/b\n"]
    return QUERY_PATHS


def run_multi(case, ctx, res):
    """Several globs in one annotation, and globs taken through the REUSE.toml text route (from_toml / from_dict):
    an annotation applies exactly when one of its globs matches the whole path."""
    import reuse.global_licensing as gl

    rng = rng_for(ctx.seed, "c05multi", case["k"])
    paths = query_paths()
    for _ in range(case["n"]):
        globs = rng.sample(SMALL_GLOBS, rng.randint(1, 4))
        if rng.random() < 0.3:
            globs.append(glob_of(rng.randrange(5 ** 3), 3))
        toks = [glob_ref.tokenize(g) for g in globs]
        if any(t is None for t in toks):
            continue
        nn = [glob_ref.Nfa(t, False) for t in toks]
        nw = [glob_ref.Nfa(t, True) for t in toks]
        route = rng.choice(["ctor", "toml", "toml"])
        try:
            if route == "ctor":
                item = ctx.state["AI"](paths=list(globs))
                match = item.matches
            else:
                text = "version = 1\n\n[[annotations]]\npath = " + json.dumps(globs if len(globs) > 1 or rng.random() < 0.5 else globs[0]) + \
                       '\nSPDX-License-Identifier = "MIT"\n'
                rt = gl.ReuseTOML.from_toml(text, "REUSE.toml")
                match = lambda p, rt=rt: rt.find_annotations_item(p) is not None  # noqa: E731
        except Exception as e:  # noqa
            res.violation("crash-compiling-glob", f"globs {globs!r} via {route}: {type(e).__name__}: {e}")
            continue
        for p in paths:
            got = bool(match(p))
            nar = any(n.matches(p) for n in nn)
            wid = any(n.matches(p) for n in nw)
            res.n += 1
            if nar and not got:
                res.violation(f"multi-glob-missed:{route}", f"annotation with globs {globs!r} must apply to {p!r} (one of them matches) but does not ({route})",
                              globs=globs, path=p)
                break
            if got and not wid:
                res.violation(f"multi-glob-overmatch:{route}", f"annotation with globs {globs!r} applies to {p!r} although none of them matches the whole path ({route})",
                              globs=globs, path=p)
                break
        res.sigs.add(short_hash("multi", route, *globs))
        res.cell("route:" + route)
        res.cell(f"globs-per-item:{len(globs)}")


def run_lint(case, ctx, res):
    """A tree with a REUSE.toml whose tables use globs; the attribution visible in lint --json must be sandwiched too."""
    from ..monitors import Contracts, run_cli

    rng = rng_for(ctx.seed, "c05lint", case["k"])
    root = ctx.scratch / f"c05-{case['k']}"
    root.mkdir()
    con = Contracts()

    def cond(kw):
        out = []
        item, path, result = kw["self"], kw["path"], kw["result"]
        nar = wid = False
        for g in item.paths:
            toks = glob_ref.tokenize(g)
            if toks is None:
                return []
            nar = nar or glob_ref.Nfa(toks, False).matches(path)
            wid = wid or glob_ref.Nfa(toks, True).matches(path)
        if nar and not result:
            out.append({"key": classify(sorted(item.paths)[0], path, "missed"), "what": f"in situ: {sorted(item.paths)} must match {path!r}"})
        if result and not wid:
            out.append({"key": classify(sorted(item.paths)[0], path, "overmatch"), "what": f"in situ: {sorted(item.paths)} overmatches {path!r}"})
        return out

    attached = con.attach("reuse.global_licensing", "matches", cond, cls_name="AnnotationsItem")
    try:
        names = ["a.py", "b.py", "x.a", "dir/a.py", "dir/sub/a.py", "dir/b.txt", "*.py", "st*r.txt", "dir/**", "a", "dir/a",
                 "back\\slash.py", "sp ace.py", "dir/sub/deep/er.py", "ab.py", "xa", "dir/xa", "dir/two\nlines.py", "line\nfeed.py", "line\\\nfeed.py", "tail\\"]
        # the REUSE.toml sits in the project root or - as the project's only one - in a sub-directory: its globs speak about paths
        # relative to *its* directory, and say nothing about files outside of it
        base_rel = ["", "", "pkg", "deep/er/pkg"][case["k"] % 4]
        base = root / base_rel if base_rel else root
        for nme in names:
            for top in {base, root}:
                p = top / nme
                p.parent.mkdir(parents=True, exist_ok=True)
                p.write_text("content\n")
        res.cell("lint:toml-in:" + (base_rel or "root"))
        globs = ["*.py", "**/*.py", "**/a", "dir/*", "dir/**", "\\*.py", "st\\*r.txt", "**", "*", "dir/**/a.py", "a*", "*a",
                 "back\\\\slash.py", "sp ace.py", "**/er.py", "**a", "dir/*/a.py", "line\\\nfeed.py", "line\\\nfeed.py"]
        rng.shuffle(globs)
        chosen = globs[: rng.randint(3, 7)]
        toml = ["version = 1", ""]
        for j, g in enumerate(chosen):
            toml += ["[[annotations]]", "path = " + json.dumps(g), 'precedence = "aggregate"',
                     f'SPDX-FileCopyrightText = "2020 Holder{j}"', f'SPDX-License-Identifier = "LicenseRef-G{j}"', ""]
        (base / "REUSE.toml").write_text("\n".join(toml))
        if base_rel and (case["k"] // 4) % 2 == 0:
            # more REUSE.toml files in the project - in the root, in directories that are no ancestors of the files, before and
            # after this one in every order - take nothing away from the one under test (and match nothing themselves)
            for other in ("", "AAA first", "zzz last", base_rel + "-sibling", "deep/AAA"):
                od = root / other
                od.mkdir(parents=True, exist_ok=True)
                if not (od / "REUSE.toml").exists():
                    (od / "REUSE.toml").write_text('version = 1\n\n[[annotations]]\npath = "no-such-file-anywhere.xyz"\n'
                                                   'SPDX-FileCopyrightText = "2001 Elsewhere"\nSPDX-License-Identifier = "CC0-1.0"\n')
            res.cell("lint:several-REUSE.toml-in-unrelated-directories")
        r = run_cli(["--no-multiprocessing", "--root", str(root), "lint", "--json"], cwd=str(root))
        try:
            data = json.loads(r.stdout)
        except ValueError:
            res.violation("lint-json-unparseable", "lint --json gave no JSON", **r.brief())
            return
        for f in data["files"]:
            path = f["path"]
            got = {x["value"] for x in f["spdx_expressions"]}
            if base_rel:
                if not path.startswith(base_rel + "/"):
                    res.n += 1
                    if got:
                        res.violation("lint-attribution-outside-the-toml-directory", f"{path!r} lies outside {base_rel}/ but is attributed {sorted(got)} "
                                      f"by {base_rel}/REUSE.toml", path=path, globs=chosen)
                    continue
                path = path[len(base_rel) + 1:]
            # last matching table wins within one REUSE.toml
            exp_n = exp_w = None
            for j, g in enumerate(chosen):
                toks = glob_ref.tokenize(g)
                if glob_ref.Nfa(toks, False).matches(path):
                    exp_n = j
                if glob_ref.Nfa(toks, True).matches(path):
                    exp_w = j
            res.n += 1
            ok_vals = set()
            if exp_n is not None:
                ok_vals.add(f"LicenseRef-G{exp_n}")
            if exp_w is not None:
                ok_vals.add(f"LicenseRef-G{exp_w}")
            if exp_n is None and exp_w is None:
                ok = not got
            elif exp_n == exp_w:
                ok = got == {f"LicenseRef-G{exp_n}"}
            else:
                ok = True  # readings differ for this file: not asserted here (the contract still is)
            if not ok:
                res.violation("lint-attribution", f"{path!r} attributed {sorted(got)} with tables {chosen}", path=path, globs=chosen)
        # the same project named by a relative root from its parent directory: the globs speak about the same files
        r2 = run_cli(["--no-multiprocessing", "--root", root.name, "lint", "--json"], cwd=str(root.parent))
        try:
            d2 = json.loads(r2.stdout)
        except ValueError:
            d2 = None
            res.violation("lint-json-unparseable", "lint --json with a relative root gave no JSON", **r2.brief())
        if d2 is not None:
            m1 = {trees.norm_path(f["path"], root, str(root)): sorted(x["value"] for x in f["spdx_expressions"]) for f in data["files"]}
            m2 = {trees.norm_path(f["path"], root, str(root.parent)): sorted(x["value"] for x in f["spdx_expressions"]) for f in d2["files"]}
            res.n += 1
            if m1 != m2:
                bad = sorted(k for k in set(m1) | set(m2) if m1.get(k) != m2.get(k))[:4]
                res.violation("lint-attribution:relative-root", f"with --root {root.name} from the parent directory the tables apply differently: "
                              + "; ".join(f"{k!r}: {m1.get(k)} vs {m2.get(k)}" for k in bad), globs=chosen)
            res.cell("lint:relative-root-from-parent")
        res.sigs.add(short_hash("lint", *chosen))
        ctx.count("contract_evals_matches", con.evals.get("reuse.global_licensing.AnnotationsItem.matches", 0))
        if not attached:
            ctx.count("contract_skipped")
        for v in con.drain():
            res.violation(v["key"], v["what"])
    finally:
        con.detach()
        shutil.rmtree(root, ignore_errors=True)


def inconclusive_reasons(counters, finish, feats, tier):
    if counters.get("contract_evals_matches", 0) == 0 and not counters.get("contract_skipped"):
        return ["contract on AnnotationsItem.matches never evaluated during lint runs"]
    return []
