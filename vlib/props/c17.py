"""C17 convert-dep5 produces an equivalent REUSE.toml.

Relational oracle: the lint report *before* the conversion is the reference for the report
*after* it (python-debian defines what the dep5 meant); at function level the two matchers are
compared path by path.  M-fs gives the order of "REUSE.toml written" and "dep5 removed".
"""

import itertools
import json
import os
import shutil

from ..monitors import FS, run_cli, snapshot
from ..util import Res, chunks, rng_for, short_hash

ID = "C17"
LEVEL = "exploration"
RULE = ("patterns over {a . / * ? \\\\} up to length L crossed with all paths up to length P over {a b . / * ? \\\\} (L=3,P=4 quick; "
        "L=5,P=5 thorough) compared between python-debian's find_files_paragraph and the converted REUSE.toml; real trees with "
        "dep5 files of 1-6 Files paragraphs, several patterns per paragraph, multi-line copyright, licence texts, comments, header "
        "fields: lint --json before vs after `reuse convert-dep5`; write/remove order and an injected write failure; non-trivial = "
        "pattern with a wildcard or escape / tree with >= 2 paragraphs; distinct = distinct patterns and trees")
ASSUMPTIONS = ["python-debian is the reference for the meaning of a dep5 pattern; patterns it rejects are not valid dep5 and are skipped",
               "path quantifier bounded as in C05"]
MIN_NONTRIVIAL = {"quick": 150, "thorough": 3000}
P_ALPHA = ["a", ".", "/", "*", "?", "\\"]
PATH_ALPHA = ["a", "b", ".", "/", "*", "?", "\\"]
HEADER = ("Format: https://www.debian.org/doc/packaging-manuals/copyright-format/1.0/\nUpstream-Name: demo\n"
          "Upstream-Contact: Jane Doe <jane@example.com>\nSource: https://example.com/demo\n")


def pat_of(idx, length):
    s = []
    for _ in range(length):
        s.append(P_ALPHA[idx % 6])
        idx //= 6
    return "".join(s)


def generate(tier, seed):
    L, P = (3, 4) if tier == "quick" else (5, 5)
    cases = []
    for length in range(1, L + 1):
        for lo, hi in chunks(0, 6 ** length, 30 if tier == "quick" else 60):
            cases.append({"kind": "enum", "len": length, "lo": lo, "hi": hi, "P": P})
    for k in range(400 if tier == "quick" else 5000):
        cases.append({"kind": "tree", "k": k})
    for k in range(8 if tier == "quick" else 40):
        cases.append({"kind": "order", "k": k})
    return cases


def setup(ctx):
    FS.install()
    from debian.copyright import Copyright

    import reuse.convert_dep5 as cv
    import reuse.global_licensing as gl

    ctx.state.update(Copyright=Copyright, cv=cv, gl=gl)
    paths = []
    for n in range(1, 6):
        for t in itertools.product(PATH_ALPHA, repeat=n):
            paths.append("".join(t))
    from pathlib import PurePosixPath

    # only spellings a relative file path can really have (no trailing or doubled slash, no leading slash, no '.' parts)
    ctx.state["all_paths"] = [p for p in paths if not p.startswith("/") and PurePosixPath(p).as_posix() == p and
                              "." not in p.split("/") and ".." not in p.split("/")]


def star_slash(pattern):
    """An unescaped run of asterisks directly followed by '/' (escapes walked properly: in `\\\\*/` the asterisk is not escaped)."""
    i = 0
    while i < len(pattern):
        if pattern[i] == "\\":
            i += 2
            continue
        if pattern[i] == "*":
            j = i
            while j < len(pattern) and pattern[j] == "*":
                j += 1
            if j < len(pattern) and pattern[j] == "/":
                return True
            i = j
            continue
        i += 1
    return False


def classify(pattern, path, ref_got=None):
    # a '?' that is not escaped
    i = 0
    has_q = False
    esc_star = False
    while i < len(pattern):
        if pattern[i] == "\\":
            if i + 1 < len(pattern) and pattern[i + 1] == "*":
                esc_star = True
            i += 2
            continue
        if pattern[i] == "?":
            has_q = True
        i += 1
    if has_q:
        return "dep5-question-mark-not-expressible"
    if star_slash(pattern) and ref_got == (False, True):
        return "dep5-asterisk-slash-becomes-globstar-slash-matching-zero-directories"
    if esc_star:
        return "escaped-asterisk-converted"
    return "matchers-differ"


def run_case(case, ctx):
    res = Res()
    if case["kind"] == "enum":
        Copyright, cv, gl = ctx.state["Copyright"], ctx.state["cv"], ctx.state["gl"]
        paths = [p for p in ctx.state["all_paths"] if len(p) <= case["P"]]
        for idx in range(case["lo"], case["hi"]):
            pat = pat_of(idx, case["len"])
            text = HEADER + f"\nFiles: {pat}\nCopyright: 2020 Jane\nLicense: MIT\n"
            try:
                import warnings

                with warnings.catch_warnings():
                    warnings.simplefilter("ignore")
                    dep5 = Copyright(text.splitlines(True))
                    if not list(dep5.all_files_paragraphs()):
                        continue
                    dep5.find_files_paragraph("a")  # compiles the pattern; invalid escapes raise here
            except Exception:  # noqa: not a valid dep5
                res.cell("invalid-dep5-pattern")
                continue
            try:
                toml_text = cv.toml_from_dep5(dep5)
                rt = gl.ReuseTOML.from_toml(toml_text, "REUSE.toml")
            except Exception as e:  # noqa
                res.violation("conversion-raises", f"pattern {pat!r}: {type(e).__name__}: {e}")
                continue
            bad = None
            for p in paths:
                res.n += 1
                try:
                    ref = dep5.find_files_paragraph(p) is not None
                except Exception:  # noqa
                    continue
                got = rt.find_annotations_item(p) is not None
                if ref != got and bad is None:
                    bad = (p, ref, got)
            if bad:
                p, ref, got = bad
                res.violation(classify(pat, p, (ref, got)), f"dep5 pattern {pat!r} {'matches' if ref else 'does not match'} {p!r}, the converted REUSE.toml "
                              f"{'does' if got else 'does not'} ({toml_text.splitlines()[-5]})", pattern=pat, path=p)
            if any(c in pat for c in "*?\\"):
                res.nsig += 1
        if case["lo"] == 0:
            res.sample = {"pattern": pat_of(case["hi"] - 1, case["len"]), "paths": f"all over {PATH_ALPHA} up to length {case['P']}"}
    elif case["kind"] == "tree":
        run_tree(case, ctx, res)
    else:
        run_order(case, ctx, res)
    return res.out()


NAMES = ["a.txt", "b.py", "src/main.c", "src/util.c", "src/sub/deep.c", "docs/index.md", "docs/img/logo.png", "data/x?y.dat", "st*r.txt",
         "README", "src/a b.c", "ab.txt", "a1.txt", "back\\slash.txt", "docs/q.md",
         # names that merely begin like a name some pattern spells out in full
         "README.rst", "a.txt.orig", "src/main.c.bak", "b.pyc", "docs/index.md5",
         # one word typed with a combining accent, once with the precomposed letter: two different names
         "docs/cafe\u0301.md", "docs/caf\u00e9s.md"]
PATTERNS = ["*", "src/*", "*.txt", "docs/*.md", "src/sub/*", "a?.txt", "st\\*r.txt", "data/x\\?y.dat", "docs/img/*", "README", "src/*.c",
            "a.txt", "src/main.c", "b.py", "docs/index.md",
            "*.c", "a*.txt", "back\\\\slash.txt", "docs/caf\u00e9.md", "docs/cafe\u0301s.md", "docs/cafe\u0301.md", "d*", "*/q.md", "src/**", "**/*.md", "?.py", "docs/?.md", "src/mai?.c"]


import re as _re0

CLEAN_PATTERNS = [p for p in PATTERNS if "?" not in p.replace("\\?", "") and not star_slash(p)]


def make_dep5(rng, clean=False):
    paras = []
    for j in range(rng.randint(1, 6)):
        pats = rng.sample(CLEAN_PATTERNS if clean else PATTERNS, rng.randint(1, 3))
        cops = [f"20{10 + j} Holder{j}"] + ([f"1999 Second{j} <s@example.com>"] if rng.random() < 0.4 else [])
        if rng.random() < 0.35:
            cops.append("Copyright (C) 2015 Shared Holder")
        if rng.random() < 0.25:
            # notices aligned in columns, as debian/copyright files have them
            cops.append(rng.choice([f"2008-2010  Aligned  Holder{j}", f"2012\tTabbed Holder{j}  <t@example.com>"]))
        lic = rng.choice(["MIT", "GPL-3.0-or-later", "Apache-2.0 OR MIT", "CC0-1.0"])
        lines = ["Files: " + rng.choice([" ", "\n ", "  "]).join(pats)]
        if rng.random() < 0.2:
            # the usual Debian layout: nothing behind the field name, every notice on a line of its own
            lines.append("Copyright:")
            for c in cops:
                lines.append("  " + c)
        else:
            lines.append("Copyright: " + cops[0])
            for c in cops[1:]:
                lines.append("  " + c)
        if rng.random() < 0.25:
            lines.append(f"License: {lic}\n The full text of the licence follows here\n .\n second paragraph of the text")
        else:
            lines.append(f"License: {lic}")
        if rng.random() < 0.3:
            lines.append("Comment: a comment about this paragraph\n continued")
        paras.append("\n".join(lines))
        if rng.random() < 0.3 and j >= 1:
            # A, B, A' : a later paragraph with exactly the information of an earlier one but other, overlapping patterns.
            # "Last matching paragraph wins" must survive the conversion whatever the paragraphs have in common.
            first = paras[rng.randrange(len(paras) - 1)]
            body = first.split("\n", 1)[1] if not first.startswith("Files:\n") else None
            if body and "\n " not in first.split("\n", 1)[0]:
                pats2 = rng.sample(CLEAN_PATTERNS if clean else PATTERNS, rng.randint(1, 2))
                paras.append("Files: " + " ".join(pats2) + "\n" + body)
    head = HEADER
    if rng.random() < 0.3:
        # the header paragraph may carry fields of its own; the tool reads Files paragraphs only, before and after
        head += "Copyright: 1990 Header Holder\nLicense: ISC\n"
    if rng.random() < 0.3:
        head += "Disclaimer: not part of Debian\n"
    if rng.random() < 0.3:
        head += rng.choice(["Comment: header comment\n", "Comment: header comment\n continued on a second line\n .\n and a new paragraph with \"quotes\" and a back\\slash\n"])
    return head + "\n" + "\n\n".join(paras) + "\n"


def norm_lint(stdout, root, cwd=None):
    data = json.loads(stdout)
    from .. import trees as _t

    def np(x):
        # file paths are printed relative to where the command ran; identifiers are left alone
        if isinstance(x, str) and cwd is not None and (os.path.lexists(os.path.join(str(cwd), x)) or os.path.lexists(os.path.join(str(root), x))):
            return _t.norm_path(x, root, cwd)
        return x

    files = {}
    for f in data["files"]:
        files[np(f["path"])] = (sorted(c["value"] for c in f["copyrights"]), sorted(e["value"] for e in f["spdx_expressions"]),
                                sorted((c["value"], c["source_type"]) for c in f["copyrights"] if c["source_type"] not in ("dep5", "reuse-toml")))
    nc = {k: (sorted(np(x) for x in v) if isinstance(v, list) else {a: sorted(np(x) for x in b) if isinstance(b, list) else np(b) for a, b in v.items()})
          for k, v in data["non_compliant"].items()}
    return files, nc, data["summary"]["compliant"]


def run_tree(case, ctx, res):
    rng = rng_for(ctx.seed, "c17tree", case["k"])
    root = ctx.scratch / f"c17-{case['k']}"
    root.mkdir()
    try:
        for n in rng.sample(NAMES, rng.randint(4, len(NAMES))):
            p = root / n
            p.parent.mkdir(parents=True, exist_ok=True)
            if n.endswith(".png"):
                p.write_bytes(b"\x89PNG\r\n\x1a\n\x00\x00\x00\rIHDR" + bytes(range(128, 200)))
            elif rng.random() < 0.25:
                # the header states, letter for letter, a notice that the dep5 states for the same file as well
                p.write_text("# Copyright (C) 2015 Shared Holder\n# SPDX-License-Identifier: 0BSD\ncontent\n")
            elif rng.random() < 0.3:
                p.write_text("# SPDX-FileCopyrightText: 2001 In File\n# SPDX-License-Identifier: 0BSD\ncontent\n")
            else:
                p.write_text("content\n")
        clean = case["k"] % 10 < 7
        text = make_dep5(rng, clean)
        # the file, or the directory it is in, may be a link to something shared that lives outside the project
        linked = rng.choice([None] * 8 + ["file", "dir"])
        shared = root.parent / f"c17-{case['k']}-shared"
        if linked:
            (shared / "common").mkdir(parents=True)
        if linked == "dir":
            (shared / "common" / "dep5").write_text(text)
            os.symlink(str(shared / "common"), root / ".reuse")
        else:
            (root / ".reuse").mkdir()
            if linked == "file":
                (shared / "common" / "dep5-shared").write_text(text)
                os.symlink(str(shared / "common" / "dep5-shared"), root / ".reuse" / "dep5")
            else:
                (root / ".reuse" / "dep5").write_text(text)
        if case["k"] % 6 == 1:
            # a Git work tree whose ignored build directory holds somebody else's checkout, REUSE.toml included: not the project's
            from .. import trees as _t0

            _t0.git_init(root)
            (root / ".git" / "info" / "exclude").write_text("build/\n")
            (root / "build" / "_deps" / "libfoo").mkdir(parents=True)
            (root / "build" / "_deps" / "libfoo" / "REUSE.toml").write_text('version = 1\n[[annotations]]\npath = "**"\nSPDX-FileCopyrightText = "2001 Foo"\n'
                                                                             'SPDX-License-Identifier = "Zlib"\n')
            (root / "build" / "_deps" / "libfoo" / "foo.c").write_text("int foo;\n")
            res.cell("git:ignored-directory-with-a-foreign-REUSE.toml")
        shared_before = sorted(os.listdir(shared / "common")) if linked else None
        r1 = run_cli(["--no-multiprocessing", "--root", str(root), "lint", "--json"], cwd=str(root))
        if r1.escaped or r1.exit_code == 2:
            res.cell("dep5-rejected-before")
            return
        before = norm_lint(r1.stdout, root, str(root))
        from .. import trees as _trees

        ccwd, cgargs = _trees.place_lint(rng, root)
        rc = run_cli(["--no-multiprocessing"] + cgargs + ["convert-dep5"], cwd=ccwd)
        res.n += 1
        if rc.escaped or rc.exit_code != 0:
            res.violation("convert-failed", f"convert-dep5 exit {rc.exit_code} {rc.exc_type} on a dep5 that lint accepts", dep5=text, tb=rc.exc_tb, **rc.brief())
            return
        if os.path.lexists(root / ".reuse" / "dep5") or not (root / "REUSE.toml").exists():
            res.violation("conversion-incomplete", f"after convert-dep5: dep5 still there or REUSE.toml missing (dep5 linked: {linked})")
            return
        if linked:
            res.cell("dep5-linked:" + linked)
            now = sorted(os.listdir(shared / "common"))
            want = shared_before if linked == "file" else [x for x in shared_before if x != "dep5"]
            if now != want or os.path.exists(shared / "REUSE.toml"):
                res.violation("conversion-touches-link-target", f"dep5 reached through a link ({linked}): the directory it lives in went from {shared_before} "
                              f"to {now}; REUSE.toml outside the project: {os.path.exists(shared / 'REUSE.toml')}")
                return
        # the same question asked again, possibly from elsewhere and with the root spelled differently: same answer
        lcwd, lgargs = _trees.place_lint(rng, root)
        if not lgargs:
            lgargs = ["--root", str(root)]
        r2 = run_cli(["--no-multiprocessing"] + lgargs + ["lint", "--json"], cwd=lcwd)
        if r2.escaped or r2.exit_code == 2:
            res.violation("converted-toml-rejected", f"lint rejects the generated REUSE.toml: {(r2.stderr or r2.stdout)[-300:]}", dep5=text,
                          toml=(root / "REUSE.toml").read_text())
            return
        after = norm_lint(r2.stdout, root, lcwd)
        if before != after:
            diffs = [p for p in set(before[0]) | set(after[0]) if before[0].get(p) != after[0].get(p)]
            key = "lint-differs-after-conversion"
            pats_q = "?" in text.replace("\\?", "")
            import re as _re

            if clean:
                pass  # no pattern outside the expressible language: any difference is a violation
            elif diffs and pats_q:
                key = "dep5-question-mark-not-expressible"
            elif diffs and any(star_slash(w) for ln in text.splitlines() if ln.startswith(("Files:", " ")) for w in ln.replace("Files:", "").split()) and all(
                    len(after[0].get(p, ([], []))[0]) >= len(before[0].get(p, ([], []))[0]) for p in diffs):
                key = "dep5-asterisk-slash-becomes-globstar-slash-matching-zero-directories"
            elif diffs and "\\*" in text:
                key = "escaped-asterisk-converted"
            res.violation(key, f"lint report differs after conversion for {diffs[:4]}: before {[before[0].get(p) for p in diffs[:2]]} after {[after[0].get(p) for p in diffs[:2]]}",
                          dep5=text, toml=(root / "REUSE.toml").read_text(),
                          other=[(k, before[1].get(k), after[1].get(k)) for k in set(before[1]) | set(after[1]) if before[1].get(k) != after[1].get(k)][:4],
                          lint_from=[lcwd, lgargs])
            return
        # there is nothing left to convert: a second run refuses and leaves REUSE.toml alone
        toml_bytes = (root / "REUSE.toml").read_bytes()
        rc2 = run_cli(["--no-multiprocessing", "--root", str(root), "convert-dep5"], cwd=str(root))
        if rc2.escaped or rc2.exit_code == 0 or (root / "REUSE.toml").read_bytes() != toml_bytes:
            res.violation("second-conversion-not-refused", f"convert-dep5 without a dep5 (right after a conversion): exit {rc2.exit_code} {rc2.exc_type}, "
                          f"REUSE.toml {'changed' if (root / 'REUSE.toml').read_bytes() != toml_bytes else 'unchanged'}", **rc2.brief())
            return
        if text.count("Files:") >= 2:
            res.sigs.add(short_hash(text))
        res.cell("tree-equal" + ("-clean" if clean else ""))
    finally:
        shutil.rmtree(root, ignore_errors=True)
        shutil.rmtree(root.parent / f"c17-{case['k']}-shared", ignore_errors=True)


def run_order(case, ctx, res):
    """REUSE.toml is written before dep5 is removed; a failing write keeps dep5; no dep5 -> refusal."""
    root = ctx.scratch / f"c17-order-{case['k']}"
    (root / ".reuse").mkdir(parents=True)
    try:
        dep5 = root / ".reuse" / "dep5"
        dep5.write_text(HEADER + "\nFiles: *\nCopyright: 2020 J\nLicense: MIT\n")
        (root / "a.txt").write_text("x\n")
        mode = case["k"] % 4
        if mode == 0:
            FS.begin()
            try:
                r = run_cli(["--no-multiprocessing", "--root", str(root), "convert-dep5"], cwd=str(root))
            finally:
                ev = FS.end()
            res.n += 1
            w = [e["seq"] for e in ev if e["ev"] == "open-w" and e["path"] == str(root / "REUSE.toml")]
            d = [e["seq"] for e in ev if e["ev"] in ("os.remove", "os.rename") and e["path"] == str(dep5)]
            ctx.count("order_runs")
            if r.exit_code != 0 or not w or not d:
                res.violation("order-not-observed", f"convert-dep5 exit {r.exit_code}; write events {w} remove events {d}", **r.brief())
            elif min(d) < min(w):
                res.violation("dep5-removed-before-toml-written", f"dep5 removed (seq {min(d)}) before REUSE.toml was opened for writing (seq {min(w)})")
            res.sigs.add("order")
        elif mode == 1:
            FS.fail_write = {str(root / "REUSE.toml"): lambda p: OSError(28, "No space left on device (injected)", p)}
            FS.begin()
            try:
                r = run_cli(["--no-multiprocessing", "--root", str(root), "convert-dep5"], cwd=str(root))
            finally:
                FS.end()
                FS.fail_write = {}
            res.n += 1
            ctx.count("write_fault_runs")
            if not dep5.exists():
                res.violation("dep5-removed-although-write-failed", f"writing REUSE.toml failed (injected ENOSPC) but dep5 is gone; exit {r.exit_code} exc {r.exc_type}")
            res.cell("write-fault:" + ("escaped-" + str(r.exc_type) if r.escaped else f"exit-{r.exit_code}"))
            res.sigs.add("write-fault")
        elif mode == 3:
            # the failure comes while the data is written / flushed, not when the file is opened: REUSE.toml -> /dev/full
            if not os.path.exists("/dev/full"):
                res.cell("no-dev-full")
                return
            os.symlink("/dev/full", root / "REUSE.toml")
            r = run_cli(["--no-multiprocessing", "--root", str(root), "convert-dep5"], cwd=str(root))
            res.n += 1
            ctx.count("write_fault_runs")
            if not dep5.exists():
                res.violation("dep5-removed-although-write-failed", f"REUSE.toml could not be written (ENOSPC while writing to /dev/full) but dep5 is gone; "
                              f"exit {r.exit_code} exc {r.exc_type}")
            elif r.exit_code == 0 and not r.escaped:
                res.violation("write-failure-not-noticed", "writing to /dev/full reported success")
            res.cell("flush-fault:" + ("escaped-" + str(r.exc_type) if r.escaped else f"exit-{r.exit_code}"))
            res.sigs.add("flush-fault")
        else:
            dep5.unlink()
            before = snapshot(root)
            r = run_cli(["--no-multiprocessing", "--root", str(root), "convert-dep5"], cwd=str(root))
            res.n += 1
            if r.escaped or r.exit_code == 0 or snapshot(root) != before:
                res.violation("runs-without-dep5", f"convert-dep5 without a dep5: exit {r.exit_code} exc {r.exc_type}, tree changed={snapshot(root) != before}")
            res.sigs.add("no-dep5")
    finally:
        FS.fail_write = {}
        FS.active = False
        shutil.rmtree(root, ignore_errors=True)
