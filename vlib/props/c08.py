"""C08 Annotate changes nothing but the header.

Labelled-line diff oracle: bodies are sequences of atoms with unique ids, so the bytes after
`reuse annotate` can be checked line by line against what went in.
"""

import os
import shutil

from .. import annot, trees
from ..monitors import run_cli
from ..util import Res, rng_for, short_hash

ID = "C08"
LEVEL = "exploration"
RULE = ("bodies of labelled atoms (code, indented, trailing-blank lines, blank runs, own-style and foreign comment lines, first-line "
        "declarations from SHEBANGS, BOM) x every comment style (by file type and forced) x {replace, --no-replace} x EOL {LF, CRLF, "
        "CR} x final newline y/n x existing header {none, top, after declaration, middle} x {single, --multi-line}; non-trivial = "
        ">= 3 atoms; distinct = distinct (style, options, body)")
ASSUMPTIONS = ["grey (not generated): files mixing EOL conventions; own-style comment lines contiguous with an existing REUSE "
               "header; an existing header as the very last thing of a file without final newline"]
MIN_NONTRIVIAL = {"quick": 2000, "thorough": 100000}
BOM = "﻿"
EOLS = {"LF": "\n", "CRLF": "\r\n", "CR": "\r"}


def generate(tier, seed):
    n = 180 if tier == "quick" else 12000
    return [{"k": k, "n": 50} for k in range(n)]


def setup(ctx):
    ctx.state["types"] = [t for t in annot.type_table() if not t["uncommentable"] and not t["empty"]]
    ctx.state["styles"] = trees.style_table()
    ctx.state["names"] = annot.style_names()


FOREIGN = ["// F{} foreign", "# F{} foreign", "-- F{} foreign", "<!-- F{} foreign -->", "/* F{} foreign */", "; F{} foreign", "% F{} x"]


def make_body(rng, st, short, header_pos, bom, with_decl, latin=False):
    """-> list of (label, line) ; labels: 'A' atom, 'B' blank, 'H' old header, 'D' declaration"""
    items = []
    uid = [0]

    def nid():
        uid[0] += 1
        return uid[0]

    def atoms(n):
        out = []
        for _ in range(n):
            r = rng.random()
            if r < 0.35:
                out.append(("A", f"K{nid()} code line = value"))
            elif r < 0.5:
                out.append(("A", rng.choice(["    ", "\t", "  "]) + f"K{nid()} indented"))
            elif r < 0.57:
                out.append(("A", f"K{nid()} trailing blanks" + rng.choice([" ", "   ", "\t"])))
            elif r < 0.585 and latin:
                # bytes that are not UTF-8 (a Latin-1 comment or string): kept as they are, or the file is refused - never rewritten
                out.append(("A", rng.choice([f"K{nid()} caf\udce9 cr\udce8me", f"s = 'K{nid()} na\udcefve \udcff'"])))
            elif r < 0.6 and rng.random() < 0.3:
                # characters typed with combining marks (decomposed form): bytes of the body like any other
                out.append(("A", rng.choice([f"K{nid()} = 'Rene\u0301 Mu\u0308ller'", f"K{nid()} cafe\u0301 \u212bngstro\u0308m \ufb01n"])))
            elif r < 0.6:
                # characters str.splitlines() would split on, but which are not line endings of the file
                odd = rng.choice(["\x0c", "\x0b", "\x1c", "\x1d", "\x1e", "\x85", "\u2028", "\u2029"])
                out.append(("A", rng.choice([f"K{nid()} odd {odd} inside", f"{odd}K{nid()} page break", f"K{nid()} s = '{odd}'"])))
            elif r < 0.63:
                # a commented example inside an ignore block: ordinary lines of the body, whatever tags they show
                i = nid()
                for ln in trees.comment_block(st, ["REUSE-IgnoreStart", f"C{i} example follows", "SPDX-License-Identifier: GPL-2.0-only",
                                                   f"SPDX-FileCopyrightText: 1999 Example Person{i}", "REUSE-IgnoreEnd"]).split("\n"):
                    out.append(("A", ln))
                out.append(("B", ""))
            elif r < 0.75:
                for _ in range(rng.randint(1, 3)):
                    out.append(("B", ""))
            elif r < 0.87:
                i = nid()
                for ln in trees.comment_block(st, [f"C{i} own comment", f"C{i} more"], multi=rng.random() < 0.3).split("\n"):
                    out.append(("A", ln) if ln.strip() else ("B", ln))
                out.append(("B", ""))
            else:
                f = rng.choice(FOREIGN).format(nid())
                # a foreign comment must not look like the file's own comment syntax
                if st["single"] and f.startswith(st["single"]):
                    f = "K" + f
                if st["multi"][0] and f.startswith(st["multi"][0]):
                    f = "K" + f
                out.append(("A", f))
        return out

    decl = None
    if with_decl and st["shebangs"]:
        decl = rng.choice(st["shebangs"]) + f" D{nid()} declaration"
        if decl.startswith("<?xml ") and rng.random() < 0.4:
            # XML allows any white space behind the name: a tab, or the line ending right there
            decl = rng.choice(["<?xml\t" + decl[6:], "<?xml"])
        items.append(("D", decl))
    old = []
    if header_pos not in ("none", "top-trailing"):
        lines = [f"SPDX-FileCopyrightText: 2019 Old Holder{nid()}", "", "SPDX-License-Identifier: Apache-2.0"]
        old = [("H", ln) for ln in trees.comment_block(st, lines, multi=rng.random() < 0.3).split("\n")]
        if rng.random() < 0.3:
            # a header somebody wrote or edited by hand: blanks at the ends of its lines
            old = [("H", ln + rng.choice(["", " ", "  ", "\t", "   "])) for _, ln in old]
    if header_pos == "top-trailing":
        # a multi-line comment holding tags whose closing line goes on with real content: not a header the tool can
        # replace; whatever it does, the content behind the end marker is not its to remove
        s_, m_, e_ = st["multi"]
        lines = [f"SPDX-FileCopyrightText: 2019 Old Holder{nid()}", "SPDX-License-Identifier: Apache-2.0"]
        blk = trees.comment_block(st, lines, multi=True).split("\n")
        blk[-1] = blk[-1] + f"K{nid()} content right behind the end marker"
        if decl:
            items.append(("B", ""))
        items += [("A", ln) if ln.strip() else ("B", ln) for ln in blk]
        for _ in range(rng.randint(1, 5)):
            items.append(("A", f"K{nid()} code line = value"))
    elif header_pos == "top":
        if decl:
            items.append(("B", ""))
        items += old + [("B", "")] + atoms(rng.randint(2, 7))
    elif header_pos == "middle":
        pre = [a for a in atoms(rng.randint(1, 4))]
        if rng.random() < 0.25:
            # the very text of the header once more further up, as an example inside an ignore block: ordinary body lines
            s_ = trees.comment_block(st, ["REUSE-IgnoreStart"]).split("\n")
            e_ = trees.comment_block(st, ["REUSE-IgnoreEnd"]).split("\n")
            pre += [("A", ln) for ln in s_] + [("A", ln) for _, ln in old] + [("A", ln) for ln in e_] + [("B", "")] + atoms(1)
        if decl and rng.random() < 0.3 and st["single"] and decl.startswith(st["single"]):
            # a script that carries another script (here-document): the declaration line again, directly above the header
            old = [("H", decl)] + old
        # nothing before the old header may itself be an own-style comment directly touching it
        items += pre + [("B", "")] + old + [("B", "")] + atoms(rng.randint(1, 5))
    else:
        items += atoms(rng.randint(0, 8))
    if decl and rng.random() < 0.35:
        # the very same line again further down (a here-document writing another script, an XML sample inside CDATA ...)
        pos = rng.randint(min(len(items), 2), len(items))
        if all(lab != "H" for lab, _ in items[pos - 1:pos + 1]):
            items.insert(pos, ("A", decl))
    if rng.random() < 0.08 and not decl and header_pos == "none":
        # minified / generated code: the first line alone is longer than any "header window"
        n = rng.choice([4094, 4095, 4096, 4097, 5000, 9000])
        items.insert(0, ("A", f"K{nid()} long first line " + "x" * n))
    # a body must not end in a header/blank-only tail when it has a final-newline flag to test
    if not any(l == "A" for l, _ in items):
        items.append(("A", f"K{nid()} only line"))
    while items and items[-1][0] == "B":
        items.pop()
    return items, decl


def analyse(res, items, out_text, E, opts, desc):
    """The diff oracle. items: labelled input lines; out_text: decoded output (BOM kept as a character)."""
    key_base = f"{desc['short']}:{'noreplace' if opts['no_replace'] else 'replace'}"
    # (iii) BOM / declaration first
    if opts["bom"]:
        if not out_text.startswith(BOM):
            res.violation("bom-not-first", f"byte order mark no longer first ({desc})", head=out_text[:200])
            return False
        if out_text.count(BOM) != 1:
            res.violation("bom-duplicated", "byte order mark duplicated", head=out_text[:200])
            return False
        out_text = out_text[1:]
    elif BOM in out_text:
        res.violation("bom-invented", "a byte order mark appeared", head=out_text[:200])
        return False
    ends_nl = out_text.endswith(E)
    out_lines = out_text.split(E)
    if ends_nl:
        out_lines.pop()
    # (iv) line-ending convention
    for ln in out_lines:
        if "\r" in ln or "\n" in ln:
            res.violation(f"eol-convention-changed:{desc['eol']}", f"output mixes line endings ({desc})", line=ln[:200])
            return False
    decl = opts["decl"]
    if decl is not None and (not out_lines or out_lines[0] != decl):
        res.violation("declaration-not-first", f"first-line declaration {decl!r} is no longer the first line ({desc})", head=out_lines[:4])
        return False
    keep_old = opts["no_replace"]
    in_lines = [ln for _, ln in items]
    labs = [lab for lab, _ in items]
    # the single change window: longest common prefix / suffix of lines
    p = 0
    while p < len(in_lines) and p < len(out_lines) and in_lines[p] == out_lines[p]:
        p += 1
    s = 0
    while s < len(in_lines) - p and s < len(out_lines) - p and in_lines[len(in_lines) - 1 - s] == out_lines[len(out_lines) - 1 - s]:
        s += 1
    in_mid = list(zip(labs[p:len(in_lines) - s], in_lines[p:len(in_lines) - s]))
    out_mid = out_lines[p:len(out_lines) - s]
    must_keep = [ln for lab, ln in in_mid if lab in ("A", "D") or (lab == "H" and keep_old and ln.strip())]
    ai = 0
    roles = []  # per out_mid line: ('kept', idx) | 'blank' | 'new'
    for ln in out_mid:
        if ai < len(must_keep) and ln == must_keep[ai]:
            roles.append(("kept", ai, False))
            ai += 1
        elif ai < len(must_keep) and must_keep[ai] != must_keep[ai].rstrip() and ln == must_keep[ai].rstrip():
            roles.append(("kept", ai, True))
            ai += 1
        elif ln.strip() == "":
            roles.append("blank")
        else:
            roles.append("new")
    if ai != len(must_keep):
        res.violation(f"line-lost-or-altered:{key_base}", f"line {must_keep[ai]!r} is missing, altered or out of order after annotate ({desc})",
                      window_in=in_mid[:30], window_out=out_mid[:40])
        return False
    new_idx = [i for i, r in enumerate(roles) if r == "new"]
    if not new_idx:
        res.violation(f"no-header-inserted:{key_base}", f"annotate reported success but no new line appeared ({desc})", out=out_lines[:20])
        return False
    lo, hi = new_idx[0], new_idx[-1]
    if any(isinstance(roles[i], tuple) for i in range(lo, hi + 1)):
        res.violation(f"header-not-contiguous:{key_base}", f"inserted lines are interleaved with kept lines ({desc})", window_out=out_mid[:40])
        return False
    # the header block, seen through the window, may be a rotation of the real block when delimiter lines repeat:
    # look for the requested tags in the window plus the lines around it
    around = "\n".join(out_lines[max(0, p - 12):len(out_lines) - s + 12])
    if "SPDX-License-Identifier: MIT" not in around or "New Holder" not in around:
        res.violation(f"inserted-block-is-not-the-header:{key_base}", "the changed region does not contain the requested tags", window_out=out_mid[:30])
        return False
    # every inserted line is a line of the header: a comment delimiter, an empty comment line, a requested tag or a tag of the
    # header that was replaced - never a fragment of anything else
    st = opts.get("st")
    if st:
        toks = sorted({t for t in (st["single"], st["multi"][0], st["multi"][1], st["multi"][2]) if t}, key=len, reverse=True)
        allowed = {"SPDX-FileCopyrightText: 2021 New Holder", "SPDX-License-Identifier: MIT"} | \
                  {ln[ln.index("SPDX-"):].strip() for lab, ln in items if lab == "H" and "SPDX-" in ln}
        for i in new_idx:
            c = out_mid[i].strip()
            changed = True
            while changed and c:
                changed = False
                for t in toks:
                    if c.startswith(t):
                        c, changed = c[len(t):].strip(), True
                    elif c.endswith(t):
                        c, changed = c[:-len(t)].strip(), True
            if "SPDX-" in c:
                c = c[c.index("SPDX-"):]
            if c and c not in allowed:
                res.violation(f"foreign-line-in-inserted-block:{key_base}", f"inserted line {out_mid[i]!r} is neither comment syntax nor one of the "
                              f"header's tags ({desc})", window_out=out_mid[:40])
                return False

    for i, r in enumerate(roles):
        if isinstance(r, tuple) and r[2]:
            if i > lo or any(roles[x] != "blank" for x in range(i + 1, lo)):
                res.violation(f"trailing-blanks-stripped-away-from-header:{key_base}", f"line {out_mid[i]!r} lost trailing blanks but is not adjacent to the header ({desc})",
                              window_out=out_mid[:30])
                return False
    # blank runs between two kept lines on the same side of the block must be unchanged
    kept_pos_out = [i for i, r in enumerate(roles) if isinstance(r, tuple)]
    kept_pos_in = [i for i, (lab, ln) in enumerate(in_mid) if lab in ("A", "D") or (lab == "H" and keep_old and ln.strip())]
    for a in range(len(kept_pos_out) - 1):
        o0, o1 = kept_pos_out[a], kept_pos_out[a + 1]
        if o0 < lo < o1:
            continue
        i0, i1 = kept_pos_in[a], kept_pos_in[a + 1]
        if any(in_mid[x][0] == "H" for x in range(i0 + 1, i1)):
            continue
        b_in = sum(1 for x in range(i0 + 1, i1) if in_mid[x][1].strip() == "")
        b_out = sum(1 for x in range(o0 + 1, o1) if roles[x] == "blank")
        if b_in != b_out:
            res.violation(f"blank-lines-changed-away-from-header:{key_base}", f"{b_in} blank lines between {out_mid[o0]!r} and {out_mid[o1]!r} "
                          f"became {b_out} ({desc})", window_out=out_mid[:40])
            return False
    # (v) final newline: when the file ends in a kept line outside or after the block
    last_real = next((lab for lab in reversed(labs) if lab != "B"), None)
    if (last_real in ("A", "D") or (last_real == "H" and keep_old)) and (s > 0 or (kept_pos_out and kept_pos_out[-1] > hi)):
        if ends_nl != opts["final_nl"]:
            res.violation(f"final-newline-changed:{key_base}", f"final newline {'added' if ends_nl else 'removed'} ({desc})", tail=out_text[-80:])
            return False
    return True


def run_case(case, ctx):
    res = Res()
    rng = rng_for(ctx.seed, "c08", case["k"])
    root = ctx.scratch / f"c08-{case['k']}"
    root.mkdir()
    styles = ctx.state["styles"]
    try:
        for j in range(case["n"]):
            forced = rng.random() < 0.25
            if forced:
                short = rng.choice(ctx.state["names"])
                fname = f"f{j}.unknownext"
            else:
                t = rng.choice(ctx.state["types"])
                short = t["short"]
                fname = f"d{j}/" + t["fname"]
            st = styles[short]
            eolname = rng.choice(["LF", "LF", "CRLF", "CR"])
            E = EOLS[eolname]
            header_pos = rng.choice(["none", "none", "top", "middle", "top-trailing"])
            if header_pos == "top-trailing" and not (st["multi"][0] and st["multi"][2]):
                header_pos = "top"
            no_replace = rng.random() < 0.3
            bom = rng.random() < 0.15
            with_decl = rng.random() < 0.35
            final_nl = rng.random() < 0.8
            multi = rng.random() < 0.25 and bool(st["multi"][0] and st["multi"][2])
            latin = rng.random() < 0.12
            items, decl = make_body(rng, st, short, header_pos, bom, with_decl, latin)
            latin = any(0xDC80 <= ord(c) <= 0xDCFF for _, ln in items for c in ln)
            if final_nl and rng.random() < 0.2:
                items += [("B", "")] * rng.randint(1, 2)  # trailing blank lines
            text = (BOM if bom else "") + E.join(ln for _, ln in items) + (E if final_nl else "")
            if E not in text:
                E, eolname = "\n", "none"
            f = root / fname
            f.parent.mkdir(parents=True, exist_ok=True)
            raw = text.encode("utf-8", "surrogateescape")
            f.write_bytes(raw)
            cwd, gargs, fargs = annot.place(rng, root, [f])
            holder = "New Holder"
            if rng.random() < 0.04:
                # a value that is not valid UTF-8 (it arrives with a lone surrogate) cannot be written: the run fails, the file stays
                holder = "New " + chr(0xDCFF) + " Holder"
                res.cell("request-that-must-fail:unencodable")
            elif multi and rng.random() < 0.3:
                # a holder that contains the style's own end marker cannot be written into a multi-line comment: the run
                # fails, and a failed run leaves every byte where it was
                holder = f"New {st['multi'][2]} Holder"
                res.cell("request-that-must-fail")
            args = gargs + ["annotate", "-c", holder, "-l", "MIT", "--year", "2021"]
            if forced:
                args += ["--style", short]
            if no_replace:
                args.append("--no-replace")
            merge = rng.random() < 0.2
            if merge:
                args.append("--merge-copyrights")
            if multi:
                args.append("--multi-line")
            args += fargs
            r = run_cli(args, cwd=cwd)
            res.n += 1
            desc = {"short": short, "eol": eolname, "header": header_pos, "no_replace": no_replace, "merge": merge, "bom": bom, "decl": bool(decl),
                    "final_nl": final_nl, "multi": multi}
            if r.escaped:
                res.violation("escaped-exception", f"{r.exc_type} ({desc})", tb=r.exc_tb)
                continue
            if r.exit_code != 0:
                res.cell("annotate-refused" + (":non-utf8-body" if latin else ""))
                if f.read_bytes() != raw:
                    res.violation("refused-but-changed", "annotate failed yet changed the file", **r.brief())
                continue
            out = f.read_bytes()
            if holder != "New Holder":
                res.cell("request-that-must-fail:succeeded-all-the-same")   # not this property's question (C11's)
                continue
            if os.path.exists(str(f) + ".license"):
                # the content classifier took the file for binary (control characters): the header went to FILE.license
                res.cell("went-to-dot-license")
                if out != raw:
                    res.violation("file-changed-although-header-went-to-dot-license", f"FILE.license was written and FILE changed as well ({desc})")
                continue
            try:
                out_text = out.decode("utf-8", "surrogateescape" if latin else "strict")
            except UnicodeDecodeError:
                res.violation("output-not-utf8", "annotate wrote undecodable bytes")
                continue
            if latin:
                res.cell("body-with-non-utf8-bytes:annotated")
            ok = analyse(res, items, out_text, E, {"bom": bom, "decl": decl, "no_replace": no_replace, "final_nl": final_nl, "st": st}, desc)
            if ok and sum(1 for lab, _ in items if lab == "A") >= 3:
                res.sigs.add(short_hash(short, sorted(desc.items()), [ln for _, ln in items]))
            res.cell("style:" + short)
            res.cell("eol:" + eolname)
            res.cell("header:" + header_pos)
            res.cell("mode:" + ("no-replace" if no_replace else "replace"))
            if bom:
                res.cell("bom")
            if decl:
                res.cell("declaration")
            if case["k"] == 0 and j == 3:
                res.sample = {"desc": desc, "input_lines": [list(x) for x in items][:12], "output_head": out_text[:400]}
    finally:
        shutil.rmtree(root, ignore_errors=True)
    return res.out()
