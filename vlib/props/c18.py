"""C18 The SPDX bill of materials is a faithful, well-formed image of the project.

Observed: stdout / -o file of the real `reuse spdx`; cross-checked with `reuse lint --json`
on the same tree, hashlib.sha1 of the files on disk, and the recipe.
"""

import hashlib
import json
import os
import shutil

from .. import trees
from ..models import spdx_tv as tv
from ..monitors import run_cli
from ..util import Res, rng_for, short_hash

ID = "C18"
LEVEL = "exploration"
RULE = ("C01-style trees (files without information, several expressions per file, WITH/OR/AND nests, REUSE.toml / dep5 / "
        ".license sources, names with blanks and non-ASCII, LicenseRef- texts) x {stdout, -o inside, -o outside} x "
        "{--add-license-concluded with creator person/organization, plain}; LicenseConcluded decided under all truth "
        "assignments (<= 10 atoms); non-trivial = >= 3 File sections and >= 1 expression; distinct = distinct (carriers, "
        "expressions, options)")
ASSUMPTIONS = ["the tag-value parser in models/spdx_tv.py stands in for an SPDX validator (spdx-tools is not installed)",
               "unreadable files and licence texts containing </text> are not generated in the trees; a line break in a file name and "
               "'</text>' in a copyright line are dedicated cases (the former is a listed finding)"]
MIN_NONTRIVIAL = {"quick": 100, "thorough": 4000}
DEFECTS = [d for d in trees.DEFECTS if d != "unreadable"]


def generate(tier, seed):
    n = 700 if tier == "quick" else 40000
    return [{"k": k} for k in range(n)] + [{"k": k, "hostile": h} for k, h in enumerate(["name-newline", "name-cr", "holder-text-end"])]


def setup(ctx):
    ctx.state["styles"] = trees.style_table()


def run_hostile(case, ctx, res):
    """Inputs the tag-value format has no way to carry: a line break in a file name (listed finding); '</text>' inside a copyright
    line is read leniently by the parser used here (up to the last end marker of the line) and passes."""
    h = case["hostile"]
    root = ctx.scratch / f"c18-hostile-{case['k']}"
    (root / "LICENSES").mkdir(parents=True)
    (root / "LICENSES" / "MIT.txt").write_text("text\n")
    holder = "2020 J </text> more" if h.startswith("holder") else "2020 J"
    name = {"name-newline": "new\nline.py", "name-cr": "carriage\rreturn.py"}.get(h, "plain.py")
    (root / name).write_text(f"# SPDX-License-Identifier: MIT\n# SPDX-FileCopyrightText: {holder}\n")
    (root / "other.py").write_text("# SPDX-License-Identifier: MIT\n# SPDX-FileCopyrightText: 2021 K\n")
    try:
        r = run_cli(["--no-multiprocessing", "--root", str(root), "spdx"], cwd=str(root))
        res.n = 1
        if r.escaped or r.exit_code != 0:
            res.violation("spdx-exit-status", f"reuse spdx exit {r.exit_code} {r.exc_type} on {h}", **r.brief())
            return
        key = "line-break-in-file-name-breaks-tag-value" if h.startswith("name") else "text-end-marker-in-copyright"
        try:
            header, files, lics = tv.split_document(tv.parse_tv(r.stdout))
            names = sorted(f["FileName"] for f in files)
            cops = sorted(f.get("FileCopyrightText", "") for f in files)
        except tv.TVError as e:
            res.violation(key, f"{h}: the document does not parse as tag-value ({e})", doc=r.stdout[:900])
            return
        want = sorted("./" + n for n in (name, "other.py"))
        if names != want or (h.startswith("holder") and not any(holder in c for c in cops)):
            res.violation(key, f"{h}: sections {names}, copyright texts {cops}; the project has {want} and holder {holder!r}", doc=r.stdout[:900])
            return
        res.sigs.add(short_hash("hostile", h))
        res.cell("hostile:" + h)
    finally:
        shutil.rmtree(root, ignore_errors=True)


def run_case(case, ctx):
    res = Res()
    if case.get("hostile"):
        run_hostile(case, ctx, res)
        return res.out()
    k = case["k"]
    rng = rng_for(ctx.seed, "c18", k)
    defects = [rng.choice(DEFECTS) for _ in range(rng.choice([0, 0, 1, 2, 3]))]
    recipe = trees.gen_recipe(rng, n_files=rng.randint(3, 10), defects=defects, spicy=(k % 2 == 0), git=(k % 11 == 5))
    if k % 6 == 4:
        # licence texts kept in a directory that is linked into LICENSES/ (shared between projects): one used, one not
        recipe["files"].append({"path": "uses_linked_dir.py", "kind": "text", "style": "python", "multi": False,
                                "sources": [{"carrier": "header", "copyrights": ["2022 Linked Dir"], "exprs": [("id", "LicenseRef-Vendor-EULA")], "toml_dir": ""}]})
        recipe["licenses"].append({"name": "shared/LicenseRef-Vendor-EULA.txt", "id": "LicenseRef-Vendor-EULA", "linkdir": True})
        recipe["licenses"].append({"name": "shared/LicenseRef-Shared-Notice.txt", "id": "LicenseRef-Shared-Notice", "linkdir": True})
    # make sure LicenseRef- texts exist in a good share of trees
    if k % 3 == 0:
        recipe["files"].append({"path": "refuser.txt", "kind": "text", "style": "python", "multi": False,
                                "sources": [{"carrier": "header", "copyrights": ["2022 Ref User"],
                                             "exprs": [("or", [("id", "LicenseRef-special"), ("id", "MIT")])], "toml_dir": ""}]})
        have = {x["id"] for x in recipe["licenses"]}
        for i in ("LicenseRef-special", "MIT"):
            if i not in have:
                recipe["licenses"].append({"name": i + ".txt", "id": i})
    if k % 6 == 0:
        # a LicenseRef- that lint attributes to a file although nobody provides its text (a non-compliant tree is still described)
        recipe["files"].append({"path": "refmissing.txt", "kind": "text", "style": "python", "multi": False,
                                "sources": [{"carrier": "header", "copyrights": ["2022 Ref Missing"],
                                             "exprs": [("and", [("id", "LicenseRef-not-provided"), ("id", "MIT")])], "toml_dir": ""}]})
        recipe["files"].append({"path": "refonly.txt", "kind": "text", "style": "c", "multi": False,
                                "sources": [{"carrier": "dotlicense", "copyrights": ["2022 Ref Only"], "exprs": [("id", "LicenseRef-nowhere.at-all")], "toml_dir": ""}]})
        if "MIT" not in {x["id"] for x in recipe["licenses"]}:
            recipe["licenses"].append({"name": "MIT.txt", "id": "MIT"})
    if k % 2 == 1 and recipe["global_mode"] != "dep5":
        # same identifiers, different structure; and byte-identical files with one base name in different directories:
        # anything memoised on identifiers, base name or content shows up here
        have = {x["id"] for x in recipe["licenses"]}
        for i in ("MIT", "Apache-2.0", "0BSD"):
            if i not in have:
                recipe["licenses"].append({"name": i + ".txt", "id": i})
        structs = [("and", [("id", "MIT"), ("id", "Apache-2.0")]), ("or", [("id", "MIT"), ("id", "Apache-2.0")]),
                   ("or", [("id", "Apache-2.0"), ("and", [("id", "MIT"), ("id", "0BSD")])]),
                   ("and", [("id", "Apache-2.0"), ("or", [("id", "MIT"), ("id", "0BSD")])]),
                   ("and", [("id", "0BSD"), ("id", "Apache-2.0"), ("id", "MIT")])]
        rng.shuffle(structs)
        for j, e in enumerate(structs):
            recipe["files"].append({"path": f"pkg{j}/__init__.py", "kind": "text", "style": "python", "multi": False, "body": "twin",
                                    "sources": [{"carrier": "dotlicense", "copyrights": ["2019 Same Everywhere"], "exprs": [e], "toml_dir": ""}]})
    top, root = trees.odd_root(ctx.scratch, "c18", k)
    outdir = ctx.scratch / f"c18-{k}-out"
    try:
        trees.build(recipe, root, ctx.state["styles"])
        outdir.mkdir()
        if (root / "LICENSES" / "shared").is_dir():
            shutil.move(str(root / "LICENSES" / "shared"), str(top / "shared-licenses"))
            os.symlink(str(top / "shared-licenses"), root / "LICENSES" / "shared")
            res.cell("licenses:linked-directory")
        if k % 8 == 5:
            # files longer than any one read of the checksum routine, and no multiple of a round block size
            (root / "big one.dat").write_bytes(b"# SPDX-License-Identifier: MIT\n" + bytes(range(256)) * 4096 + b"tail of 123 bytes".ljust(92, b"!"))
            (root / "big three.dat").write_bytes(bytes(range(255, -1, -1)) * 13500 + b"odd tail")
            recipe["extra_covered"] = ["big one.dat", "big three.dat"]
            res.cell("files:larger-than-1-MiB")
        outer = False
        if k % 5 == 2:
            # text files with CRLF / CR line endings: the checksum is that of the bytes on disk, whatever they are
            for f in recipe["files"]:
                fp = root / f["path"]
                if f["kind"] == "text" and not f.get("unreadable") and fp.is_file() and rng.random() < 0.6:
                    data = fp.read_bytes()
                    if b"\r" not in data and len(data) < 4000:
                        fp.write_bytes(data.replace(b"\n", rng.choice([b"\r\n", b"\r\n", b"\r"])))
            res.cell("eol:crlf-or-cr-files")
        if k % 7 == 3 and not recipe.get("git") and not os.path.exists(top / ".git"):
            # the project is a sub-directory of a larger Git work tree; ignore rules live above it, ignored files below it
            trees.git_init(top)
            (top / ".gitignore").write_text("*.log\nbuild/\n*.o\n")
            (root / "debug.log").write_text("ignored\n")
            (root / "build").mkdir(exist_ok=True)
            (root / "build" / "out.o").write_bytes(b"\x7fELF ignored")
            (root / "lib.o").write_bytes(b"\x7fELF ignored too")
            trees.git(top, "add", "-A", check=False)
            trees.git(top, "commit", "-q", "-m", "init", check=False)
            res.cell("vcs:work-tree-above-the-project")
            outer = True
        concluded = rng.random() < 0.6
        where = rng.choice(["stdout", "inside", "outside"])
        cwd, gargs = trees.place_lint(rng, root)
        if outer and "--root" not in gargs:
            gargs = ["--root", str(root)]   # without it the project would be the whole work tree
        args = ["--no-multiprocessing"] + gargs + ["spdx"]
        if concluded:
            args.append("--add-license-concluded")
            if rng.random() < 0.5:
                args += ["--creator-person", rng.choice(["Jane Doe", "Jane Doe (jane@example.com)"])]
            else:
                args += ["--creator-organization", "Example Org"]
        elif rng.random() < 0.3:
            args += ["--creator-person", "J. Doe"]
        target = None
        if where == "inside":
            target = root / rng.choice(["bom.spdx", "sub dir out.spdx", "reuse.spdx"])
        elif where == "outside":
            target = outdir / "out.spdx"
        if target is not None:
            args += ["-o", str(target)]
        refs = [x for x in recipe["licenses"] if x["id"].startswith("LicenseRef-") and (root / "LICENSES" / x["name"]).is_file()
                and not (root / "LICENSES" / x["name"]).is_symlink()]
        if refs and k % 3 == 0:
            # the text of a LicenseRef- licence cannot be read while the document is written (EIO): a document that claims
            # success still has the licence with its text - or there is no success
            from ..monitors import FS

            victim = refs[k // 3 % len(refs)]
            vpath = str(root / "LICENSES" / victim["name"])
            hits = {"n": 0}

            def eio(p, hits=hits):
                hits["n"] += 1
                return OSError(5, "Input/output error (injected)", p)

            FS.install()
            FS.fail_open = {vpath: eio, os.path.realpath(vpath): eio}
            FS.begin()
            try:
                rf = run_cli(["--no-multiprocessing", "--root", str(root), "spdx"], cwd=str(root))
            finally:
                FS.end()
                FS.fail_open = {}
            res.cell("licence-text-read-fault:" + ("not-reached" if not hits["n"] else "refused" if (rf.escaped or rf.exit_code != 0) else "document"))
            if hits["n"] and not rf.escaped and rf.exit_code == 0:
                ids = {v for t, v in tv.parse_tv(rf.stdout) if t == "LicenseID"}
                if victim["id"] not in ids:
                    res.violation("unreadable-licence-text-silently-left-out", f"the text of {victim['id']} could not be read (injected EIO) and "
                                  f"`reuse spdx` exits 0 with a document that does not contain the licence", ids=sorted(ids))
                    return res.out()
        # lint first (does not write), then spdx
        rl = run_cli(["--no-multiprocessing", "--root", str(root), "lint", "--json"], cwd=str(root))
        r = run_cli(args, cwd=cwd)
        res.n = 1
        if r.escaped or rl.escaped:
            res.violation("escaped-exception", f"{r.exc_type or rl.exc_type} left main()", tb=r.exc_tb or rl.exc_tb, recipe=recipe)
            return res.out()
        if r.exit_code != 0:
            res.violation("spdx-exit-status", f"reuse spdx exit {r.exit_code}", **r.brief())
            return res.out()
        if target is not None:
            if not target.exists():
                res.violation("output-file-missing", f"-o {target} not written")
                return res.out()
            doc = target.read_text(encoding="utf-8")
            if r.stdout.strip():
                res.violation("stdout-with-output-file", "document printed to stdout although -o was given", out=r.stdout[:200])
        else:
            doc = r.stdout
        try:
            lint = json.loads(rl.stdout)
        except ValueError:
            res.violation("lint-gives-no-report", f"lint --json exit {rl.exit_code} without a report", **rl.brief())
            return res.out()
        check_doc(res, doc, lint, recipe, root, concluded, args)
        res.cell("out:" + where)
        res.cell("concluded" if concluded else "noassertion")
        if k == 2:
            res.sample = {"args": args[3:], "document_head": doc[:900]}
    finally:
        shutil.rmtree(top, ignore_errors=True)
        shutil.rmtree(outdir, ignore_errors=True)
    return res.out()


def check_doc(res, doc, lint, recipe, root, concluded, args):
    try:
        pairs = tv.parse_tv(doc)
        header, files, lics = tv.split_document(pairs)
    except tv.TVError as e:
        res.violation("document-unparseable", f"not SPDX tag-value: {e}", recipe=recipe)
        return
    htags = [t for t, _ in header]
    for need in ("SPDXVersion", "DataLicense", "SPDXID", "DocumentName", "DocumentNamespace", "Creator", "Created"):
        if need not in htags:
            res.violation("header-tag-missing", f"document lacks {need}")
    rel = [v for t, v in header if t == "Relationship"]
    described = []
    for v in rel:
        parts = v.split()
        if len(parts) == 3 and parts[0] == "SPDXRef-DOCUMENT" and parts[1] == "DESCRIBES":
            described.append(parts[2])
        else:
            res.violation("relationship-malformed", f"Relationship: {v}")
    lint_files = {trees.norm_path(f["path"], root): f for f in lint["files"]}
    # --- one section per covered file and no other
    names = []
    for f in files:
        n = f["FileName"]
        names.append(n[2:] if n.startswith("./") else n)
    if sorted(names) != sorted(lint_files):
        res.violation("file-sections-vs-covered", f"File sections {sorted(set(names) ^ set(lint_files))} differ from the covered files lint examined",
                      sections=sorted(names), covered=sorted(lint_files), recipe=recipe)
    exp_cov = trees.spec_expect(recipe)["covered"] | set(recipe.get("extra_covered", []))
    if set(names) != exp_cov:
        res.violation("file-sections-vs-recipe", f"File sections differ from the recipe's covered files: {sorted(set(names) ^ exp_cov)}", recipe=recipe)
    ids = [f.get("SPDXID") for f in files]
    if len(set(ids)) != len(ids) or None in ids:
        res.violation("spdxid-not-unique", f"duplicate or missing SPDXID among {len(ids)} sections")
    for i in ids:
        c = described.count(i)
        if c != 1:
            res.violation("describes-count", f"{i} has {c} DESCRIBES relationships")
    if set(described) - set(ids):
        res.violation("describes-unknown-id", f"DESCRIBES of ids without section: {sorted(set(described) - set(ids))[:3]}")
    nontrivial_exprs = 0
    for f, name in zip(files, names):
        p = os.path.join(str(root), name)
        # checksum
        cs = f.get("FileChecksum", "")
        try:
            real = hashlib.sha1(open(p, "rb").read()).hexdigest()
        except OSError:
            real = None
        if cs != f"SHA1: {real}":
            res.violation("checksum", f"{name}: FileChecksum {cs!r} but sha1 of the bytes is {real}")
        lf = lint_files.get(name)
        if lf is None:
            continue
        # identifiers
        want_ids = set()
        exprs = []
        for x in lf["spdx_expressions"]:
            try:
                e = tv.parse_expr(x["value"])
            except ValueError:
                res.cell("lint-expression-unparsed")
                e = None
            if e is not None:
                exprs.append(e)
                want_ids |= tv.ids_of(e)
        got_ids = set(f["LicenseInfoInFile"])
        if got_ids != want_ids:
            res.violation("license-info-in-file", f"{name}: LicenseInfoInFile {sorted(got_ids)} but lint attributes {sorted(want_ids)}", recipe=recipe)
        # copyright
        fc = f.get("FileCopyrightText")
        want_c = {c["value"] for c in lf["copyrights"]}
        if fc == "NONE":
            got_c = set()
        else:
            t = tv.text_of(fc or "")
            got_c = set(t.split("\n")) if t is not None else {"<unparseable>"}
        if got_c != want_c:
            res.violation("file-copyright-text", f"{name}: FileCopyrightText {sorted(got_c)} but lint attributes {sorted(want_c)}", recipe=recipe)
        # concluded
        lc = f.get("LicenseConcluded")
        if not concluded:
            if lc != "NOASSERTION":
                res.violation("concluded-without-request", f"{name}: LicenseConcluded {lc!r} though not requested")
        elif not exprs:
            if lc != "NONE":
                res.violation("concluded-none", f"{name}: no expressions but LicenseConcluded {lc!r}")
        else:
            nontrivial_exprs += 1
            try:
                got_e = tv.parse_expr(lc or "")
            except ValueError:
                res.violation("concluded-unparseable", f"{name}: LicenseConcluded {lc!r} is not an expression")
                continue
            want_e = exprs[0] if len(exprs) == 1 else ("and", exprs)
            eq, wit = tv.equivalent(got_e, want_e)
            if eq is None:
                res.cell("concluded-too-many-atoms")
            elif not eq:
                res.violation("concluded-not-equivalent", f"{name}: LicenseConcluded {lc!r} is not equivalent to the conjunction of "
                              f"{[x['value'] for x in lf['spdx_expressions']]} (differs under {wit})", recipe=recipe)
            res.cell("concluded-checked")
    # --- LicenseRef- texts
    want_refs = {x["id"]: x["name"] for x in recipe["licenses"] if trees.is_licenseref(x["id"])}
    got_refs = {x["LicenseID"]: x for x in lics}
    if set(got_refs) != set(want_refs):
        res.violation("licenseref-sections", f"LicenseID sections {sorted(got_refs)} but LICENSES/ holds {sorted(want_refs)}", recipe=recipe)
    for i, sec in got_refs.items():
        if i in want_refs:
            real = open(os.path.join(str(root), "LICENSES", want_refs[i]), encoding="utf-8").read()
            if tv.text_of(sec.get("ExtractedText", "")) != real:
                res.violation("licenseref-text", f"ExtractedText of {i} differs from LICENSES/{want_refs[i]}")
            res.cell("licenseref-text-checked")
    if len(files) >= 3 and (nontrivial_exprs or not concluded):
        res.sigs.add(short_hash(sorted(names), [a for a in args[3:] if not a.startswith("/")], sorted(map(str, want_refs))))
