"""C13 Every lint output format and lint-file tell the same story as the exit status.

Purely relational oracle: the four views of one project state must coincide, the JSON
summary must agree with the JSON's own lists, and lint-file must equal the restriction of
the JSON to the covered files among its arguments.
"""

import json
import os
import re
import shutil

from .. import trees
from ..monitors import FS, eacces, run_cli
from ..util import Res, rng_for, short_hash

ID = "C13"
LEVEL = "exploration"
RULE = ("C01-style trees with 0-7 simultaneous defects (all ten kinds, names with blanks and non-ASCII), each linted as --json, "
        "--plain, --lines, --quiet and default, plus 4 lint-file invocations over subsets built from covered files, non-covered "
        "files, directories and .license siblings, relative or absolute, from cwd in {root, subdirectory, outside with --root}; "
        "non-trivial = tree with >= 1 defect; distinct = distinct (defect set, carriers, subset shape, cwd)")
ASSUMPTIONS = ["the wording of --plain and --lines is parsed (the repository's own tests pin that wording)",
               "file names containing a newline or ': ' are not generated (the line format itself would be ambiguous)"]
MIN_NONTRIVIAL = {"quick": 150, "thorough": 5000}

LINE_PATTERNS = [
    ("bad", re.compile(r"^(?P<path>.*): bad license (?P<lic>\S+)$")),
    ("deprecated", re.compile(r"^(?P<path>.*): deprecated license$")),
    ("noext", re.compile(r"^(?P<path>.*): license without file extension$")),
    ("unused", re.compile(r"^(?P<path>.*): unused license$")),
    ("missing", re.compile(r"^(?P<path>.*): missing license (?P<lic>\S+)$")),
    ("read_error", re.compile(r"^(?P<path>.*): read error$")),
    ("no_licence", re.compile(r"^(?P<path>.*): no license identifier$")),
    ("no_copyright", re.compile(r"^(?P<path>.*): no copyright notice$")),
]


def generate(tier, seed):
    n = 800 if tier == "quick" else 30000
    return [{"k": k} for k in range(n)]


def setup(ctx):
    FS.install()
    ctx.state["styles"] = trees.style_table()


def parse_lines(text, root, cwd):
    out = {k: set() for k, _ in LINE_PATTERNS}
    junk = []
    for line in text.splitlines():
        for name, pat in LINE_PATTERNS:
            m = pat.match(line)
            if m:
                p = normp(m.group("path"), root, cwd)
                out[name].add((p, m.group("lic")) if "lic" in m.groupdict() else p)
                break
        else:
            junk.append(line)
    return out, junk


def normp(p, root, cwd):
    if not os.path.isabs(p):
        p = os.path.join(cwd, p)
    return os.path.relpath(os.path.realpath(p), os.path.realpath(root))


def json_view(data, root, cwd, lic_paths):
    nc = data["non_compliant"]
    n = lambda p: normp(p, root, cwd)  # noqa
    v = {
        "bad": {(n(p), k) for k, ps in nc["bad_licenses"].items() for p in ps},
        "missing": {(n(p), k) for k, ps in nc["missing_licenses"].items() for p in ps},
        "deprecated": set(nc["deprecated_licenses"]),
        "noext": set(nc["licenses_without_extension"]),
        "unused": set(nc["unused_licenses"]),
        "read_error": {n(p) for p in nc["read_errors"]},
        "no_licence": {n(p) for p in nc["missing_licensing_info"]},
        "no_copyright": {n(p) for p in nc["missing_copyright_info"]},
    }
    return v


def parse_plain(text, root, cwd):
    """Sections of --plain -> same shape as json_view (identifiers for licence sections)."""
    v = {k: set() for k in ("bad", "missing", "deprecated", "noext", "unused", "read_error", "no_licence", "no_copyright")}
    summary = {}
    section = None
    sub = None
    cur_lic = None
    verdict = None
    for line in text.splitlines():
        if line.startswith("# "):
            section = line[2:].strip()
            sub = None
            cur_lic = None
            continue
        if section in ("BAD LICENSES", "MISSING LICENSES"):
            m = re.match(r"^'(.*)' found in:$", line)
            if m:
                cur_lic = m.group(1)
            elif line.startswith("* ") and cur_lic is not None:
                v["bad" if section == "BAD LICENSES" else "missing"].add((normp(line[2:], root, cwd), cur_lic))
        elif section == "DEPRECATED LICENSES" and line.startswith("* "):
            v["deprecated"].add(line[2:])
        elif section == "LICENSES WITHOUT FILE EXTENSION" and line.startswith("* "):
            v["noext"].add(line[2:])
        elif section == "UNUSED LICENSES" and line.startswith("* "):
            v["unused"].add(line[2:])
        elif section == "READ ERRORS" and line.startswith("* "):
            v["read_error"].add(normp(line[2:], root, cwd))
        elif section == "MISSING COPYRIGHT AND LICENSING INFORMATION":
            if line.startswith("The following files have no copyright and licensing"):
                sub = "both"
            elif line.startswith("The following files have no copyright information"):
                sub = "cop"
            elif line.startswith("The following files have no licensing information"):
                sub = "lic"
            elif line.startswith("* ") and sub:
                p = normp(line[2:], root, cwd)
                if sub in ("both", "cop"):
                    v["no_copyright"].add(p)
                if sub in ("both", "lic"):
                    v["no_licence"].add(p)
        elif section == "SUMMARY":
            m = re.match(r"^\* ([^:]+): ?(.*)$", line)
            if m:
                summary[m.group(1)] = m.group(2)
            if line.startswith("Congratulations"):
                verdict = True
            elif line.startswith("Unfortunately"):
                verdict = False
    return v, summary, verdict


def run_case(case, ctx):
    res = Res()
    rng = rng_for(ctx.seed, "c13", case["k"])
    nd = rng.choice([0, 1, 2, 3, 4, 5, 7])
    defects = [rng.choice(trees.DEFECTS) for _ in range(nd)]
    recipe = trees.gen_recipe(rng, n_files=rng.randint(3, 10), defects=defects, spicy=True, git=(case["k"] % 9 == 4))
    top, root = trees.odd_root(ctx.scratch, "c13", case["k"])
    try:
        unreadable = trees.build(recipe, root, ctx.state["styles"])
        if case["k"] % 4 == 1:
            # a covered file that cannot be read because of its sidecar (FILE.license is a directory): the problem is the file's,
            # in lint and in lint-file alike
            (root / "ima gé.bin").write_bytes(trees.BINARY_BLOB)
            (root / "ima gé.bin.license").mkdir()
            (root / "side.py").write_text("# SPDX-FileCopyrightText: 2012 Side\n# SPDX-License-Identifier: CC0-1.0\n")
            (root / "side.py.license").mkdir()
            res.cell("extra:sidecar-is-a-directory")
        if case["k"] % 4 == 3:
            # two names that differ in Unicode normalisation form only: two files, each with its own problems
            (root / "caf\u00e9.py").write_text("no information at all\n")
            (root / "cafe\u0301.py").write_text("# SPDX-FileCopyrightText: 2013 Decomposed\n")
            res.cell("extra:nfc-and-nfd-twin-names")
        ign = []
        if recipe.get("git"):
            # files the work tree ignores: no covered files, for lint and for lint-file alike, even when named one by one
            (root / ".git" / "info" / "exclude").write_text("ign-*\nout/\n")
            (root / "out").mkdir(exist_ok=True)
            (root / "ign-generated.py").write_text("g = 1\n")
            (root / "out" / "artefact.c").write_text("int a;\n")
            ign = ["ign-generated.py", "out/artefact.c"]
            res.cell("extra:git-ignored-files-named-one-by-one")
        meson = case["k"] % 4 == 2
        if meson:
            # defective files inside a Meson subproject: covered for lint *and* for lint-file once the option is given
            sp = root / "subprojects" / "lib é x"
            (sp / "deep").mkdir(parents=True)
            (sp / "nothing here.c").write_text("int a;\n")
            (sp / "deep" / "only cop.c").write_text("// SPDX-FileCopyrightText: 2011 Sub\nint b;\n")
            (sp / "deep" / "missing text.c").write_text("// SPDX-FileCopyrightText: 2011 Sub\n// SPDX-License-Identifier: LicenseRef-nowhere\nint c;\n")
        ctx.state["meson_opt"] = ["--include-meson-subprojects"] if meson else []
        lic_paths = {"LICENSES/" + x["name"]: x["id"] for x in recipe["licenses"]}
        FS.fail_open = {p: eacces for p in unreadable}
        FS.begin()
        try:
            MESON[0] = ctx.state["meson_opt"]
            check_formats(res, recipe, root, lic_paths, rng, case, ign)
        finally:
            FS.end()
            FS.fail_open = {}
        for d in set(defects):
            res.cell("defect:" + d)
        res.cell(f"ndefects:{len(defects)}")
        res.n = max(res.n, 1)
    finally:
        shutil.rmtree(top, ignore_errors=True)
    return res.out()


MESON = [[]]


def check_formats(res, recipe, root, lic_paths, rng, case, ign=()):
    root = str(root)
    base = ["--no-multiprocessing", "--root", root] + rng.choice([[], ["--include-submodules"]]) if False else ["--no-multiprocessing", "--root", root]
    base = base + MESON[0]
    runs = {}
    for fmt in ("--json", "--plain", "--lines", "--quiet", None):
        args = base + ["lint"] + ([fmt] if fmt else [])
        r = run_cli(args, cwd=root)
        runs[fmt] = r
        res.n += 1
        if r.escaped:
            res.violation("escaped-exception", f"lint {fmt}: {r.exc_type} left main()", recipe=recipe, tb=r.exc_tb)
            return
    codes = {str(f): r.exit_code for f, r in runs.items()}
    if len(set(codes.values())) != 1:
        res.violation("exit-status-differs-between-formats", f"exit statuses {codes}", recipe=recipe)
    if runs["--quiet"].stdout.strip():
        res.violation("quiet-prints", "lint --quiet printed output", out=runs["--quiet"].stdout[:300])
    def _canon(t):
        v, summ, verd = parse_plain(t, root, root)
        return v, {k: sorted(x.strip() for x in val.split(",")) for k, val in summ.items()}, verd

    if _canon(runs[None].stdout) != _canon(runs["--plain"].stdout):
        res.violation("default-is-not-plain", "default output differs from --plain (as parsed; list order is free)")
    try:
        data = json.loads(runs["--json"].stdout)
    except ValueError:
        res.violation("lint-json-unparseable", "no JSON", **runs["--json"].brief())
        return
    jv = json_view(data, root, root, lic_paths)
    compliant = data["summary"]["compliant"]
    if (runs["--json"].exit_code == 0) != bool(compliant):
        res.violation("exit-vs-json-compliant", f"exit {runs['--json'].exit_code} vs summary.compliant={compliant}", recipe=recipe)
    anything = any(jv.values())
    if bool(compliant) == anything:
        res.violation("json-compliant-vs-lists", f"summary.compliant={compliant} but lists non-empty={anything}", recipe=recipe)
    # JSON summary counters vs JSON lists
    s = data["summary"]
    nfiles = len(data["files"])
    if s["files_total"] != nfiles:
        res.violation("summary-files-total", f"files_total={s['files_total']} but {nfiles} file entries")
    if s["files_with_copyright_info"] != nfiles - len(data["non_compliant"]["missing_copyright_info"]):
        res.violation("summary-copyright-count", f"files_with_copyright_info={s['files_with_copyright_info']}, files={nfiles}, "
                      f"missing list={len(data['non_compliant']['missing_copyright_info'])}")
    if s["files_with_licensing_info"] != nfiles - len(data["non_compliant"]["missing_licensing_info"]):
        res.violation("summary-licensing-count", f"files_with_licensing_info={s['files_with_licensing_info']}")
    per_file_nc = {normp(f["path"], root, root) for f in data["files"] if not f["copyrights"]}
    if per_file_nc != jv["no_copyright"]:
        res.violation("json-files-vs-missing-copyright", "files[] without copyrights differ from missing_copyright_info",
                      files=sorted(per_file_nc), listed=sorted(jv["no_copyright"]))
    per_file_nl = {normp(f["path"], root, root) for f in data["files"] if not f["spdx_expressions"]}
    if per_file_nl != jv["no_licence"]:
        res.violation("json-files-vs-missing-licensing", "files[] without expressions differ from missing_licensing_info",
                      files=sorted(per_file_nl), listed=sorted(jv["no_licence"]))

    # --lines
    lv, junk = parse_lines(runs["--lines"].stdout, root, root)
    if junk:
        res.violation("lines-unparseable", f"--lines printed lines of unknown shape: {junk[:3]}")
    lv2 = dict(lv)
    for k in ("deprecated", "noext", "unused"):
        lv2[k] = {lic_paths.get(p, "?" + p) for p in lv[k]}
    for k in jv:
        if jv[k] != lv2[k]:
            res.violation(f"lines-vs-json:{k}", f"--lines and --json disagree on {k}: lines={sorted(map(str, lv2[k]))} json={sorted(map(str, jv[k]))}",
                          recipe=recipe)
    # --plain
    pv, summary, verdict = parse_plain(runs["--plain"].stdout, root, root)
    for k in jv:
        if jv[k] != pv[k]:
            res.violation(f"plain-vs-json:{k}", f"--plain and --json disagree on {k}: plain={sorted(map(str, pv[k]))} json={sorted(map(str, jv[k]))}",
                          recipe=recipe)
    if verdict is None or verdict != bool(compliant):
        res.violation("plain-verdict", f"--plain verdict {verdict} vs json compliant {compliant}")

    def sset(key):
        val = summary.get(key, "")
        return set() if val in ("0", "") else {x.strip() for x in val.split(",")}

    for key, want in (("Bad licenses", {k for _, k in jv["bad"]}), ("Deprecated licenses", jv["deprecated"]),
                      ("Licenses without file extension", jv["noext"]), ("Missing licenses", {k for _, k in jv["missing"]}),
                      ("Unused licenses", jv["unused"]), ("Used licenses", set(s["used_licenses"]))):
        if sset(key) != want:
            res.violation(f"plain-summary:{key}", f"--plain summary '{key}' = {sorted(sset(key))}, json says {sorted(want)}")
    if summary.get("Read errors", "0") != str(len(jv["read_error"])):
        res.violation("plain-summary:Read errors", f"{summary.get('Read errors')} vs {len(jv['read_error'])}")
    want_c = f"{s['files_with_copyright_info']} / {s['files_total']}"
    if summary.get("Files with copyright information") != want_c:
        res.violation("plain-summary:copyright-count", f"{summary.get('Files with copyright information')} vs {want_c}")
    want_l = f"{s['files_with_licensing_info']} / {s['files_total']}"
    if summary.get("Files with license information") != want_l:
        res.violation("plain-summary:license-count", f"{summary.get('Files with license information')} vs {want_l}")

    # ---- lint-file
    covered = sorted({normp(f["path"], root, root) for f in data["files"]} | jv["read_error"])
    others = list(ign) + [x["path"] for x in recipe["extra"]] + list(lic_paths)[:3] + \
             [f["path"] + ".license" for f in recipe["files"] if any(s_["carrier"] == "dotlicense" for s_ in f["sources"])][:2]
    dirs = sorted({os.path.dirname(p) for p in covered if os.path.dirname(p)})[:2]
    sub_dirs = [d for d in dirs if os.path.isdir(os.path.join(root, d))]
    outside = os.path.dirname(root)
    for j in range(5):
        pick = [p for p in covered if rng.random() < 0.5] or covered[:1]
        pick_o = [p for p in others if rng.random() < 0.4]
        pick_d = [d for d in dirs if rng.random() < 0.3]
        if j == 4:
            # F without any covered file: empty (xargs without input, a hook run on nothing), or non-covered files only
            pick, pick_d = [], []
            if rng.random() < 0.6:
                pick_o = []
            res.cell("lint-file-F:" + ("empty" if not pick_o else "non-covered-only"))
        where = rng.choice(["root", "sub", "outside"])
        if where == "sub" and not sub_dirs:
            where = "root"
        cwd = root if where == "root" else os.path.join(root, sub_dirs[0]) if where == "sub" else outside
        args_paths = []
        for p in pick + pick_o + pick_d:
            ap = os.path.join(root, p)
            args_paths.append(ap if rng.random() < 0.5 else os.path.relpath(ap, cwd))
        rng.shuffle(args_paths)
        glob_args = ["--no-multiprocessing"] + MESON[0] + (["--root", root] if where == "outside" or rng.random() < 0.5 else [])
        r = run_cli(glob_args + ["lint-file"] + args_paths, cwd=cwd)
        res.n += 1
        if r.escaped:
            res.violation("lint-file-escaped-exception", f"{r.exc_type} left main()", tb=r.exc_tb, args=args_paths, cwd=cwd)
            continue
        if r.exit_code == 2:
            # without --root the project is found from cwd; VCS-less sub cwd means another root: not comparable
            res.cell("lint-file-usage-error")
            if "--root" in glob_args or where == "root":
                res.violation("lint-file-usage-error", "lint-file rejected files inside the project", args=args_paths, cwd=cwd, **r.brief())
            continue
        if "--root" not in glob_args and where == "sub" and not recipe.get("git"):
            # the project root is then the sub directory itself: a different project state
            res.cell("lint-file-other-root")
            continue
        fv, junk = parse_lines(r.stdout, root, cwd)
        if junk:
            res.violation("lint-file-unparseable", f"lint-file printed lines of unknown shape: {junk[:3]}")
        ps = set(pick)
        want = {
            "missing": {(p, k) for p, k in jv["missing"] if p in ps},
            "read_error": jv["read_error"] & ps,
            "no_licence": jv["no_licence"] & ps,
            "no_copyright": jv["no_copyright"] & ps,
        }
        for k in ("bad", "deprecated", "noext", "unused"):
            if fv[k]:
                res.violation(f"lint-file-reports-{k}", f"lint-file printed project-level category {k}: {sorted(map(str, fv[k]))}")
        for k, w in want.items():
            if fv[k] != w:
                res.violation(f"lint-file-vs-lint:{k}", f"lint-file {k}={sorted(map(str, fv[k]))}, lint says {sorted(map(str, w))} for the covered files among the arguments",
                              args=args_paths, cwd=cwd, where=where, recipe=recipe)
        reported = any(fv[k] for k in fv)
        if (r.exit_code == 1) != reported or r.exit_code not in (0, 1):
            res.violation("lint-file-exit-status", f"exit {r.exit_code} but reported-anything={reported}", args=args_paths, out=r.stdout[:400])
        if recipe["defects"]:
            res.sigs.add(short_hash(sorted(recipe["defects"]), where, len(pick), len(pick_o), len(pick_d), case["k"]))
        res.cell("lint-file-cwd:" + where)
    if case["k"] == 1:
        res.sample = {"defects": recipe["defects"], "lines": runs["--lines"].stdout.splitlines()[:8], "exit": runs["--json"].exit_code}
