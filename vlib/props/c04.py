"""C04 Per-file sources and precedence follow the specification.

Oracle: a precedence model written from the statement; observed: files[].copyrights /
files[].spdx_expressions items (value, source, source_type) of `reuse lint --json`.
Cells are packed ~400 to a project, each in its own directory chain.
"""

import itertools
import json
import os
import shutil

from ..monitors import run_cli
from ..trees import BINARY_BLOB
from ..util import Res, rng_for, short_hash

ID = "C04"
LEVEL = "exploration"
RULE = ("cell = own information (none, copyright, licence, both, unparseable, binary) x .license sibling (absent, empty, "
        "copyright, licence, both) x chain of 3 nested REUSE.toml levels, each absent or one table (closest/aggregate/override x "
        "none/copyright/licence/both) or two matching tables; chains with <= 2 levels enumerated completely in quick (5070 cells) "
        "and with 3 levels completely in thorough (65910), two-table levels and .reuse/dep5 sampled; non-trivial = at least two "
        "sources present; distinct = distinct cells")
ASSUMPTIONS = ["grey, executed but only partially asserted: what REUSE.toml files *outside* an override contribute (the statement "
               "is silent): asserted there only that the override's information is present and the file's own and deeper "
               "REUSE.toml information is absent"]
MIN_NONTRIVIAL = {"quick": 4000, "thorough": 60000}
BATCH_TIMEOUT = {"quick": 1500, "thorough": 4 * 3600}

OWN = ["none", "cop", "lic", "both", "unparseable", "binary", "contrib"]
DOT = ["absent", "empty", "cop", "lic", "both", "contrib"]
PREC = ["closest", "aggregate", "override"]
INFO = ["none", "cop", "lic", "both"]
# level option: 0 = no REUSE.toml at this level; 1..12 = one table (prec, info)
LEVEL_OPTS = [None] + [(p, i) for p in PREC for i in INFO]
PER_PROJECT = 48


def generate(tier, seed):
    cells = []
    if tier == "quick":
        for own, dot, l0, l1 in itertools.product(range(len(OWN)), range(len(DOT)), range(13), range(13)):
            cells.append([own, dot, [l0, l1, 0]])
        n_s = 2000
    else:
        for own, dot, l0, l1, l2 in itertools.product(range(len(OWN)), range(len(DOT)), range(13), range(13), range(13)):
            cells.append([own, dot, [l0, l1, l2]])
        n_s = 60000
    rng = rng_for(seed, "c04-sample")
    for _ in range(n_s):
        lv = []
        for _j in range(3):
            r = rng.random()
            if r < 0.25:
                lv.append(0)
            elif r < 0.6:
                lv.append(rng.randint(1, 12))
            else:
                lv.append([rng.randint(1, 12), rng.randint(1, 12)])  # two matching tables, the last one counts
        cells.append([rng.randrange(len(OWN)), rng.randrange(len(DOT)), lv])
    cases = []
    for i in range(0, len(cells), PER_PROJECT):
        cases.append({"kind": "toml", "cells": cells[i:i + PER_PROJECT], "base": i})
    # dep5: one aggregate level
    dcells = [[own, dot, d] for own in range(6) for dot in range(5) for d in (0, 1)]
    cases.append({"kind": "dep5", "cells": dcells, "base": 0})
    cases.append({"kind": "conflict"})
    for k in range(4 if tier == "quick" else 40):
        cases.append({"kind": "meson", "k": k})
    return cases


# the file every cell is about; its type varies per project: a text type, types that cannot carry a comment (and are therefore
# never annotated in place, but read all the same), a script
FN = {"name": "f.txt"}
FNAMES = ["f.txt", "f.csv", "f.txt", "f.svg", "f.json", "f.py", "f.txt", "f.ipynb"]


def own_items(cell_dir, own, dot):
    """What the file itself (or its .license) declares -> set of (kind, value, source, type)."""
    f = f"{cell_dir}/d1/d2/{FN['name']}"
    if dot != "absent":
        src, typ, info, tag = f + ".license", "dot-license", {"empty": "none"}.get(dot, dot), "Dot"
    else:
        src, typ, tag = f, "file-header", "Own"
        info = own if own in ("cop", "lic", "both") else "none"
    items = set()
    if info in ("cop", "both"):
        items.add(("c", f"SPDX-FileCopyrightText: 2000 {tag} Holder", src, typ))
    if info in ("lic", "both"):
        items.add(("l", f"LicenseRef-{tag.lower()}", src, typ))
    return items


def table_items(level, tbl_idx, info, toml_src):
    items = set()
    if info in ("cop", "both"):
        items.add(("c", f"200{level} L{level}T{tbl_idx} Holder", toml_src, "reuse-toml"))
    if info in ("lic", "both"):
        items.add(("l", f"LicenseRef-L{level}T{tbl_idx}", toml_src, "reuse-toml"))
    return items


def level_dirs(cell_dir):
    return [cell_dir, f"{cell_dir}/d1", f"{cell_dir}/d1/d2"]


ROOT_ITEMS = {("c", "1999 Root Holder", "REUSE.toml", "reuse-toml"), ("l", "LicenseRef-root", "REUSE.toml", "reuse-toml")}


def expected(cell_dir, cell, root_level=False):
    """-> (must_have, must_not_have, exact: bool); root_level: a closest table in the project root's REUSE.toml is outermost"""
    own, dot, levels = OWN[cell[0]], DOT[cell[1]], cell[2]
    mine = own_items(cell_dir, own, dot)
    dirs = level_dirs(cell_dir)
    eff = []  # effective table per level: (prec, info, items)
    for lv, opt in enumerate(levels):
        if opt == 0:
            eff.append(None)
            continue
        if isinstance(opt, list):
            tbl_idx, o = len(opt) - 1, opt[-1]
        else:
            tbl_idx, o = 0, opt
        prec, info = LEVEL_OPTS[o]
        eff.append((prec, info, table_items(lv, tbl_idx, info, f"{dirs[lv]}/REUSE.toml")))
    # the file's own marker values that must never show up when they are shadowed
    ovr = next((i for i, e in enumerate(eff) if e and e[0] == "override"), None)
    if ovr is not None:
        must = set(eff[ovr][2])
        forbidden_src = {f"{cell_dir}/d1/d2/{FN['name']}", f"{cell_dir}/d1/d2/{FN['name']}.license"} | {f"{dirs[j]}/REUSE.toml" for j in range(ovr + 1, 3)}
        outer_present = any(eff[j] for j in range(ovr)) or root_level
    if root_level:
        eff = [("closest", "both", set(ROOT_ITEMS))] + eff
    if ovr is not None:
        # the file and everything below the override are not looked at; what REUSE.toml files *above* it contribute stays: their
        # aggregate tables, and - the file itself stating nothing - the nearest closest table for each kind
        want = set(must)
        upper = eff[:ovr + (1 if root_level else 0)]
        for e in upper:
            if e and e[0] == "aggregate":
                want |= e[2]
        for kind, infos in (("c", ("cop", "both")), ("l", ("lic", "both"))):
            for e in reversed(upper):
                if e and e[0] == "closest" and e[1] in infos:
                    want |= {i for i in e[2] if i[0] == kind}
                    break
        return want, forbidden_src, True
    want = set(mine)
    has_c = any(i[0] == "c" for i in mine)
    has_l = any(i[0] == "l" for i in mine)
    for e in eff:
        if e and e[0] == "aggregate":
            want |= e[2]
    # closest: nearest (deepest) table that provides the kind the file lacks
    if not has_c:
        for e in reversed(eff):
            if e and e[0] == "closest" and e[1] in ("cop", "both"):
                want |= {i for i in e[2] if i[0] == "c"}
                break
    if not has_l:
        for e in reversed(eff):
            if e and e[0] == "closest" and e[1] in ("lic", "both"):
                want |= {i for i in e[2] if i[0] == "l"}
                break
    return want, set(), True


def write_cell(root, cell_dir, cell):
    own, dot, levels = OWN[cell[0]], DOT[cell[1]], cell[2]
    d = root / cell_dir / "d1" / "d2"
    d.mkdir(parents=True)
    f = d / FN["name"]
    cop = "# SPDX-FileCopyrightText: 2000 Own Holder\n"
    lic = "# SPDX-License-Identifier: LicenseRef-own\n"
    if own == "none":
        f.write_text("just content\n")
    elif own == "cop":
        f.write_text(cop + "content\n")
    elif own == "lic":
        f.write_text(lic + "content\n")
    elif own == "both":
        f.write_text(cop + lic + "content\n")
    elif own == "contrib":
        # names a contributor and nothing else: no copyright, no licence - whatever the tables supply still applies
        f.write_text("# SPDX-FileContributor: Some Contributor\ncontent\n")
    elif own == "unparseable":
        f.write_text(cop + "# SPDX-License-Identifier: LicenseRef-own AND OR\ncontent\n")
    else:
        f.write_bytes(BINARY_BLOB + b"\n" + (cop + lic).encode())
    if dot != "absent":
        t = ""
        if dot in ("cop", "both"):
            t += "SPDX-FileCopyrightText: 2000 Dot Holder\n"
        if dot in ("lic", "both"):
            t += "SPDX-License-Identifier: LicenseRef-dot\n"
        if dot == "contrib":
            t += "SPDX-FileContributor: Dot Contributor\n"
        (d / (FN["name"] + ".license")).write_text(t)
    if (cell[0] + cell[1]) % 3 == 0:
        # a file whose name merely ends in REUSE.toml is an ordinary file: whatever it holds says nothing about its neighbours
        (d / "sample-REUSE.toml").write_text('version = 1\n\n[[annotations]]\npath = "**"\nprecedence = "override"\n'
                                             'SPDX-FileCopyrightText = "1990 Impostor"\nSPDX-License-Identifier = "LicenseRef-impostor"\n')
        (d.parent / "xREUSE.toml").write_text('version = 1\n\n[[annotations]]\npath = "**"\nprecedence = "aggregate"\n'
                                              'SPDX-FileCopyrightText = "1990 Impostor"\nSPDX-License-Identifier = "LicenseRef-impostor"\n')
    dirs = level_dirs(cell_dir)
    for lv, opt in enumerate(levels):
        if opt == 0:
            if (cell[0] + cell[1] + lv) % 5 == 0:
                # a REUSE.toml of zero bytes is like any other empty file: not there
                (root / dirs[lv] / "REUSE.toml").write_text("")
            continue
        opts = opt if isinstance(opt, list) else [opt]
        rel = "/".join(["d1", "d2", FN["name"]][lv:])
        out = ["version = 1", ""]
        for ti, o in enumerate(opts):
            prec, info = LEVEL_OPTS[o]
            # vary the way the path is written: exact path, or a glob that matches it
            path = rel if (cell[0] + ti + lv) % 3 else ("**/" + FN["name"] if lv < 2 else "*" + os.path.splitext(FN["name"])[1])
            out += ["[[annotations]]", f'path = "{path}"', f'precedence = "{prec}"']
            if info in ("cop", "both"):
                out.append(f'SPDX-FileCopyrightText = "200{lv} L{lv}T{ti} Holder"')
            if info in ("lic", "both"):
                out.append(f'SPDX-License-Identifier = "LicenseRef-L{lv}T{ti}"')
            out.append("")
        (root / dirs[lv] / "REUSE.toml").write_text("\n".join(out))


def observed_items(fentry):
    s = set()
    for c in fentry["copyrights"]:
        s.add(("c", c["value"], c["source"], c["source_type"]))
    for e in fentry["spdx_expressions"]:
        s.add(("l", e["value"], e["source"], e["source_type"]))
    return s


def classify(cell, missing, extra):
    own, dot, levels = OWN[cell[0]], DOT[cell[1]], cell[2]
    precs = []
    for o in levels:
        if o == 0:
            precs.append("-")
        else:
            o = o[-1] if isinstance(o, list) else o
            precs.append(LEVEL_OPTS[o][0][:3])
    nclosest = precs.count("clo")
    if missing and nclosest >= 2 and (own in ("cop", "lic") or dot in ("cop", "lic")):
        return "closest-partial-own-info-takes-outermost-closest-only"
    kind = "missing" if missing else "extra"
    return f"{kind}:{'+'.join(precs)}"


def run_case(case, ctx):
    res = Res()
    if case["kind"] == "conflict":
        return run_conflict(case, ctx, res)
    if case["kind"] == "meson":
        return run_meson(case, ctx, res)
    if case["kind"] == "dep5":
        return run_dep5(case, ctx, res)
    root = ctx.scratch / f"c04-{case['base']}"
    root.mkdir()
    FN["name"] = FNAMES[(case["base"] // PER_PROJECT) % len(FNAMES)]
    res.cell("file-type:" + FN["name"])
    try:
        # directory names on both sides of "." in string order, and the root spelled "." in half of the projects: the chain of
        # REUSE.toml files must be ordered by depth, not by how the paths happen to compare as text
        prefixes = ["c", "(c", "+c", "-c", "#c", "~c", "C"]
        pre = prefixes[(case["base"] // PER_PROJECT) % len(prefixes)]
        names = [f"{pre}{j:04d}" for j in range(len(case["cells"]))]
        for j, cell in enumerate(case["cells"]):
            write_cell(root, names[j], cell)
        dot_root = (case["base"] // PER_PROJECT) % 2 == 1
        root_level = (case["base"] // PER_PROJECT) % 4 in (1, 2)
        if root_level:
            (root / "REUSE.toml").write_text('version = 1\n\n[[annotations]]\npath = "**/' + FN["name"] + '"\nprecedence = "closest"\n'
                                             'SPDX-FileCopyrightText = "1999 Root Holder"\nSPDX-License-Identifier = "LicenseRef-root"\n')
        from ..monitors import FS

        FS.install()
        FS.begin(log_reads=True)
        try:
            r = run_cli(["--no-multiprocessing", "--root", "." if dot_root else str(root), "lint", "--json"], cwd=str(root))
        finally:
            FS.end()
            reads = set(FS.reads)
        if r.escaped:
            res.violation("escaped-exception", f"{r.exc_type} left main()", tb=r.exc_tb)
            return res.out()
        try:
            data = json.loads(r.stdout)
        except ValueError:
            res.violation("lint-gives-no-report", f"lint --json exit {r.exit_code} without a report on a project of well-formed REUSE.toml files", **r.brief())
            return res.out()
        by = {f["path"]: f for f in data["files"]}
        for j, cell in enumerate(case["cells"]):
            cd = names[j]
            res.n += 1
            fe = by.get(f"{cd}/d1/d2/{FN['name']}")
            if fe is None:
                res.violation("file-not-reported", f"cell {cell}: file missing from lint --json")
                continue
            obs = observed_items(fe)
            must, forb, exact = expected(cd, cell, root_level)
            strip = lambda items: sorted((k, v, s.split("/", 1)[1] if "/" in s else s, t) for k, v, s, t in items)  # noqa
            if exact:
                if obs != must:
                    miss, extra = must - obs, obs - must
                    res.violation(classify(cell, miss, extra), f"cell own={OWN[cell[0]]} .license={DOT[cell[1]]} levels={describe(cell[2])}: "
                                  f"missing {strip(miss)} unexpected {strip(extra)}", cell=cell)
            else:
                miss = must - obs
                shadow = {i for i in obs if i[2] in forb}
            if forb:
                # "the file is not read": neither the file nor its .license sibling may be opened under an override
                opened = [p for p in (str(root / cd / "d1" / "d2" / FN["name"]), str(root / cd / "d1" / "d2" / (FN["name"] + ".license"))) if p in reads]
                if opened:
                    res.violation("overridden-file-opened", f"cell own={OWN[cell[0]]} levels={describe(cell[2])}: the file is governed by an override but "
                                  f"{[os.path.basename(p) for p in opened]} was opened", cell=cell)
                res.cell("override-not-read-checked")
            if not exact and False:
                pass
                if miss:
                    res.violation("override-information-missing", f"cell {describe(cell[2])}: override items missing {strip(miss)}", cell=cell)
                if shadow:
                    res.violation("override-does-not-hide", f"cell own={OWN[cell[0]]} levels={describe(cell[2])}: shadowed sources still contribute {strip(shadow)}", cell=cell)
                res.cell("grey-outer-of-override")
            nsrc = (1 if cell[0] in (1, 2, 3) or cell[1] in (2, 3, 4) else 0) + sum(1 for o in cell[2] if o != 0)
            if nsrc >= 2:
                res.nsig += 1
            for o in cell[2]:
                if isinstance(o, list):
                    res.cell("two-table-level")
        if case["base"] == 0:
            c = case["cells"][min(37, len(case["cells"]) - 1)]
            res.sample = {"cell": {"own": OWN[c[0]], "dot_license": DOT[c[1]], "levels": describe(c[2])},
                          "expected_items": sorted(map(list, expected("cNNNN", c)[0]))}
    finally:
        shutil.rmtree(root, ignore_errors=True)
    return res.out()


def describe(levels):
    out = []
    for o in levels:
        if o == 0:
            out.append("-")
        elif isinstance(o, list):
            out.append("[" + ", ".join("/".join(LEVEL_OPTS[x]) for x in o) + "]")
        else:
            out.append("/".join(LEVEL_OPTS[o]))
    return out


def run_dep5(case, ctx, res):
    root = ctx.scratch / "c04-dep5"
    root.mkdir()
    FN["name"] = "f.txt"
    try:
        paras = []
        for j, (own, dot, d) in enumerate(case["cells"]):
            write_cell(root, f"c{j:04d}", [own, dot, [0, 0, 0]])
            if d:
                paras += [f"Files: c{j:04d}/d1/d2/f.txt", f"Copyright: 2010 Dep5 Holder{j}", "License: LicenseRef-dep5", ""]
        (root / ".reuse").mkdir()
        (root / ".reuse/dep5").write_text(
            "Format: https://www.debian.org/doc/packaging-manuals/copyright-format/1.0/\nUpstream-Name: x\n"
            "Upstream-Contact: y\nSource: https://example.com\n\n" + "\n".join(paras))
        # once in one process from the root, once through the worker pool from the directory above with a relative root: the
        # dep5 file is read again inside every worker
        for how, argv, cwd_, strip in (("serial, from the root", ["--no-multiprocessing", "--root", str(root), "lint", "--json"], str(root), ""),
                                       ("pool, from the parent directory", ["--root", root.name, "lint", "--json"], str(root.parent), root.name + "/")):
            r = run_cli(argv, cwd=cwd_)
            if r.escaped:
                res.violation("escaped-exception", f"{r.exc_type} left main()", tb=r.exc_tb)
                return res.out()
            try:
                data = json.loads(r.stdout)
            except ValueError:
                res.violation("lint-gives-no-report", f"lint --json exit {r.exit_code} without a report", **r.brief())
                return res.out()
            by = {(f["path"][len(strip):] if f["path"].startswith(strip) else f["path"]): f for f in data["files"]}
            res.cell("dep5-run:" + how)
            for j, (own, dot, d) in enumerate(case["cells"]):
                cd = f"c{j:04d}"
                res.n += 1
                if f"{cd}/d1/d2/f.txt" not in by:
                    res.violation("file-not-reported", f"dep5 cell {cd} missing from lint --json ({how})")
                    continue
                obs = observed_items(by[f"{cd}/d1/d2/f.txt"])
                want = own_items(cd, OWN[own], DOT[dot])
                if d:
                    want |= {("c", f"2010 Dep5 Holder{j}", ".reuse/dep5", "dep5"), ("l", "LicenseRef-dep5", ".reuse/dep5", "dep5")}
                if obs != want:
                    res.violation("dep5-aggregate", f"dep5 cell own={OWN[own]} .license={DOT[dot]} dep5={d}: got {sorted(obs)} want {sorted(want)}")
                if d and (own in (1, 2, 3) or dot in (2, 3, 4)):
                    res.nsig += 1
                res.cell("dep5-cell")
        # paragraph order: the last paragraph that matches a file counts - also when it is the catch-all and comes late
        root2 = ctx.scratch / "c04-dep5-order"
        for rel in ("x/a.txt", "y/b.txt", "z/deep/c.txt", "top.txt"):
            (root2 / rel).parent.mkdir(parents=True, exist_ok=True)
            (root2 / rel).write_text("no information of its own\n")
        (root2 / ".reuse").mkdir()
        head = "Format: https://www.debian.org/doc/packaging-manuals/copyright-format/1.0/\nUpstream-Name: x\nUpstream-Contact: y\nSource: https://example.com\n\n"
        (root2 / ".reuse/dep5").write_text(head + "Files: x/*\nCopyright: 2011 Early X\nLicense: LicenseRef-x\n\nFiles: z/*\nCopyright: 2011 Early Z\nLicense: LicenseRef-z\n\n"
                                           "Files: *\nCopyright: 2012 Late Star\nLicense: LicenseRef-star\n\nFiles: y/b.txt z/deep/*\nCopyright: 2013 Last\nLicense: LicenseRef-last\n")
        want2 = {"x/a.txt": "LicenseRef-star", "top.txt": "LicenseRef-star", "y/b.txt": "LicenseRef-last", "z/deep/c.txt": "LicenseRef-last"}
        try:
            r = run_cli(["--no-multiprocessing", "--root", str(root2), "lint", "--json"], cwd=str(root2))
            try:
                data = json.loads(r.stdout)
            except ValueError:
                res.violation("lint-gives-no-report", f"lint --json exit {r.exit_code} without a report (dep5 paragraph order)", **r.brief())
                data = {"files": []}
            got2 = {f["path"]: sorted(x["value"] for x in f["spdx_expressions"]) for f in data["files"]}
            for rel, lic in want2.items():
                res.n += 1
                if got2.get(rel) != [lic]:
                    res.violation("dep5-last-matching-paragraph", f"{rel}: licences {got2.get(rel)}, the last matching paragraph says {lic}")
            res.cell("dep5-paragraph-order")
        finally:
            shutil.rmtree(root2, ignore_errors=True)
    finally:
        shutil.rmtree(root, ignore_errors=True)
    return res.out()


def run_meson(case, ctx, res):
    """The chain of REUSE.toml files also holds inside a Meson subproject once it is included: its own REUSE.toml is the
    deepest link (override there hides the file's header, closest there supplies what the file lacks)."""
    root = ctx.scratch / f"c04-meson-{case['k']}"
    sp = root / "subprojects" / "libx"
    (sp / "deep").mkdir(parents=True)
    try:
        outer = case["k"] % 2 == 0
        if outer:
            (root / "REUSE.toml").write_text('version = 1\n[[annotations]]\npath = "**/*.c"\nprecedence = "aggregate"\nSPDX-FileCopyrightText = "1998 Outer"\n')
        (sp / "REUSE.toml").write_text('version = 1\n[[annotations]]\npath = "over.c"\nprecedence = "override"\nSPDX-FileCopyrightText = "2001 Sub Override"\n'
                                       'SPDX-License-Identifier = "LicenseRef-sub-override"\n\n[[annotations]]\npath = "deep/near.c"\nprecedence = "closest"\n'
                                       'SPDX-License-Identifier = "LicenseRef-sub-closest"\n')
        (sp / "over.c").write_text("// SPDX-FileCopyrightText: 2000 Own\n// SPDX-License-Identifier: LicenseRef-own\nint o;\n")
        (sp / "deep" / "near.c").write_text("// SPDX-FileCopyrightText: 2000 Own Near\nint n;\n")
        (root / "top.c").write_text("// SPDX-FileCopyrightText: 2000 Top\n// SPDX-License-Identifier: LicenseRef-top\nint t;\n")
        for include in (True, False):
            args = ["--no-multiprocessing", "--root", str(root)] + (["--include-meson-subprojects"] if include else []) + ["lint", "--json"]
            r = run_cli(args, cwd=str(root))
            res.n += 1
            if r.escaped:
                res.violation("escaped-exception", f"{r.exc_type}", tb=r.exc_tb)
                continue
            try:
                by = {f["path"]: observed_items(f) for f in json.loads(r.stdout)["files"]}
            except ValueError:
                res.violation("lint-gives-no-report", f"lint --json exit {r.exit_code} without a report", **r.brief())
                continue
            if not include:
                extra = [p for p in by if p.startswith("subprojects/libx/")]
                if extra:
                    res.violation("meson-subproject-examined-without-option", f"{extra} reported although the option was not given")
                continue
            o = by.get("subprojects/libx/over.c")
            n = by.get("subprojects/libx/deep/near.c")
            if o is None or n is None:
                res.violation("meson-subproject-file-missing", "files of the included subproject are not reported", got=sorted(by))
                continue
            src = "subprojects/libx/REUSE.toml"
            want_o = {("c", "2001 Sub Override", src, "reuse-toml"), ("l", "LicenseRef-sub-override", src, "reuse-toml")}
            if not want_o <= o or any(i[2].endswith("over.c") for i in o):
                res.violation("override-in-subproject-REUSE.toml-not-applied", f"over.c: items {sorted(o)}; expected the override of {src} and nothing of the file itself")
            want_n = {("c", "SPDX-FileCopyrightText: 2000 Own Near", "subprojects/libx/deep/near.c", "file-header"), ("l", "LicenseRef-sub-closest", src, "reuse-toml")}
            if outer:
                want_n.add(("c", "1998 Outer", "REUSE.toml", "reuse-toml"))
            if n != want_n:
                res.violation("closest-in-subproject-REUSE.toml-not-applied", f"near.c: items {sorted(n)}; expected {sorted(want_n)}")
            res.nsig += 1
            res.cell("meson-chain")
    finally:
        shutil.rmtree(root, ignore_errors=True)
    return res.out()


def run_conflict(case, ctx, res):
    """dep5 and REUSE.toml are mutually exclusive: configuration error, exit 2."""
    for where in ("REUSE.toml", "sub/REUSE.toml"):
        root = ctx.scratch / ("c04-conflict-" + where.replace("/", "_"))
        (root / ".reuse").mkdir(parents=True)
        (root / "sub").mkdir()
        (root / "sub/a.txt").write_text("x\n")
        (root / ".reuse/dep5").write_text("Format: https://www.debian.org/doc/packaging-manuals/copyright-format/1.0/\n\nFiles: *\nCopyright: 2020 X\nLicense: MIT\n")
        (root / where).write_text("version = 1\n")
        r = run_cli(["--no-multiprocessing", "--root", str(root), "lint", "--json"], cwd=str(root))
        res.n += 1
        if r.escaped or r.exit_code != 2:
            res.violation("dep5-and-toml-not-rejected", f"dep5 + {where}: exit {r.exit_code} exc {r.exc_type}", **r.brief())
        res.cell("conflict")
        shutil.rmtree(root, ignore_errors=True)
    return res.out()
