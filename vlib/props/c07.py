"""C07 What annotate writes, the linter reads back.

Monitor: success reported by `reuse annotate` => the information `reuse lint --json` (and the
tool's own extractor, for contributors) reads from the file is exactly what it declared before
plus what was requested, built independently from (prefix, year, holder).  Classes that must
succeed are required to succeed, so the implication is not vacuous.
"""

import datetime
import os
import shutil

from .. import annot, trees
from ..models import notice
from ..monitors import run_cli
from ..util import Res, rng_for, short_hash

ID = "C07"
LEVEL = "exploration"
RULE = ("every entry of the extension and file-name tables (complete in both tiers) x option draws: --style, --single-line / "
        "--multi-line where supported, ten prefixes, --year x0/x1/x2 / --exclude-year, --force-dot-license / --fallback-dot-license, "
        "templates {default, custom, no-contributors, pre-commented, dropping licences / copyright / both}, binary and "
        "uncommentable files, holders and expressions from a grammar incl. non-ASCII, punctuation and comment terminators, "
        "pre-existing content {empty, code, foreign header, own header}; non-trivial = anything but the default invocation on "
        "an empty file; distinct = distinct (type, options, holder class, content)")
ASSUMPTIONS = ["grey: holders containing a notice-like token or starting with four digits (C20's own class)",
               "contributors are not part of lint output; they are read with the tool's own extractor from the header carrier"]
MIN_NONTRIVIAL = {"quick": 600, "thorough": 30000}

PLAIN_HOLDERS = ["Jane Doe", "Example Corp. <https://example.com>", "Zoë Müller <z@example.org>", "ACME, Inc.", "名前 太郎",
                 "O'Neil & Sons", "The X Authors (see AUTHORS)", "Team [core]",
                 # a number in the name is part of the name, whatever it looks like
                 "Studio 2000 GmbH", "Les Éditions 1789 S.A.", "Agenda 2030 Working Group", "4711 Kölnisch Wasser",
                 # decomposed characters stay as they were typed
                 "Rene\u0301 Mu\u0308ller", "Ame\u0301lie <a@example.org>"]
HOSTILE_HOLDERS = ["Jane */ Doe", "Ends with -->", "curly }", "x #} y", "a *) b", "tail :)", "q '/ r", "w --}} z", "e =# f", "u *# v",
                   "p --%> q", "Jane */", "trail #}"]
LICS = ["MIT", "GPL-3.0-or-later", "Apache-2.0 OR MIT", "GPL-2.0-or-later WITH Classpath-exception-2.0", "LicenseRef-own-1.0",
        "MIT AND (0BSD OR ISC)",
        # what is written is what is asked for, also when Boolean algebra could shorten it
        "Apache-2.0 OR (Apache-2.0 AND LicenseRef-extra-terms)", "MIT AND (MIT OR ISC)", "MIT OR MIT"]
CUSTOMS = ("custom", "custom-html", "custom-xml", "custom-txt")
FAITHFUL = {None, "nocontrib", "commented"} | set(CUSTOMS)


def generate(tier, seed):
    reps = 3 if tier == "quick" else 60
    cases = []
    for rep in range(reps):
        for chunk in range(24):
            cases.append({"kind": "types", "chunk": chunk, "of": 24, "rep": rep})
    n_s = 60 if tier == "quick" else 1500
    for k in range(n_s):
        cases.append({"kind": "sampled", "k": k, "n": 50})
    for k in range(48 if tier == "quick" else 1500):
        cases.append({"kind": "multi", "k": k, "n": 8})
    return cases


def setup(ctx):
    # a file called x.license is the carrier of x, never a covered file itself: not a target for read-back through lint
    ctx.state["types"] = [t for t in annot.type_table() if t["key"] != ".license"]
    ctx.state["styles"] = trees.style_table()
    ctx.state["names"] = annot.style_names()


def prior_content(rng, st, which):
    if which == "empty":
        return "", set(), set()
    if which == "code":
        return "K1 code\nK2 more code\n", set(), set()
    if which == "foreign":
        return "@@ SPDX-FileCopyrightText: 2001 Foreign Holder\n@@ SPDX-License-Identifier: 0BSD\n\nK1 code\n", \
            {"SPDX-FileCopyrightText: 2001 Foreign Holder"}, {"0BSD"}
    if which == "utf16":
        # text in an encoding the linter does not read: either refused, or annotated such that the linter finds the header
        return "K1 code\nK2 more code\n", set(), set()
    if which == "sfx":
        # a script stub followed by packed data (self-extracting archive): text for whoever sniffs the first 512 bytes, NUL-ridden
        # for whoever looks at more - annotate and the linter must agree on what it is
        stub = "".join(f"K{i} stub line of the installer script\n" for i in range(20))
        return stub + "ustar\x00" + "\x00" * 1500 + "\x01\x02\x03\x7f" * 200 + "\nK99 end\n", set(), set()
    if which == "longcr":
        # classic Mac line endings and more than one header window of text
        return "".join(f"K{i} code line of a long CR-only file\r" for i in range(160)), set(), set()
    lines = ["SPDX-FileCopyrightText: 2002 Own Earlier", "SPDX-FileContributor: Earlier Contributor", "", "SPDX-License-Identifier: ISC"]
    own = trees.comment_block(st, lines)
    if which.startswith("ignoreblock"):
        # a commented ignore block (documentation, a test fixture) at the top: what is in it is nobody's information, neither
        # before nor after annotate, and annotate's header must end up where the linter reads it
        blk = trees.comment_block(st, ["REUSE-IgnoreStart", "SPDX-License-Identifier: GPL-3.0-only", "SPDX-FileCopyrightText: 1999 Ignored Person",
                                       "REUSE-IgnoreEnd"], multi=rng.random() < 0.3)
        if which == "ignoreblock2":
            # an earlier block that is closed again does not make later blocks any less ignored
            first = trees.comment_block(st, ["REUSE-IgnoreStart", "just words", "REUSE-IgnoreEnd"])
            return first + "\n\nK0 code\n\n" + blk + "\n\nK1 code\n", set(), set()
        if which == "ignoreblock-endstart":
            # one line closes a block and opens the next
            both = trees.comment_block(st, ["REUSE-IgnoreStart", "just words", "REUSE-IgnoreEnd REUSE-IgnoreStart", "SPDX-License-Identifier: GPL-3.0-only",
                                            "SPDX-FileCopyrightText: 1999 Ignored Person", "REUSE-IgnoreEnd"])
            return both + "\n\nK1 code\n", set(), set()
        if which == "ignoreblock":
            return blk + "\n\nK1 code\n", set(), set()
        if which == "ignoreblock+own":
            return blk + "\n\n" + own + "\n\nK1 code\n", {"SPDX-FileCopyrightText: 2002 Own Earlier"}, {"ISC"}
        return own + "\n\n" + blk + "\n\nK1 code\n", {"SPDX-FileCopyrightText: 2002 Own Earlier"}, {"ISC"}
    if which == "contrib-top+far":
        # the header at the top names contributors only; much further down (beyond the linter's window) a vendored piece carries
        # a notice of its own: the header is the one at the top
        top = trees.comment_block(st, ["SPDX-FileContributor: Top Contributor"])
        far = trees.comment_block(st, ["vendored helper", "SPDX-FileCopyrightText: 1998 Vendored Helper", "SPDX-License-Identifier: Zlib"])
        return top + "\n\n" + "".join(f"K{i} = 'filler filler filler filler filler filler'\n" for i in range(110)) + "\n" + far + "\nK999 end\n", set(), set()
    return own + "\n\nK1 code\n", {"SPDX-FileCopyrightText: 2002 Own Earlier"}, {"ISC"}


def one(res, ctx, root, rng, t, forced_style, idx, sample=False):
    styles = ctx.state["styles"]
    short = forced_style or (t["short"] if t else None)
    st = styles.get(short)
    d = root / f"x{idx}"
    d.mkdir()
    fname = "unknown.zzz9" if t is None else t["fname"]
    f = d / fname
    binary = t is not None and rng.random() < 0.08
    uncomm = t is not None and (t["uncommentable"] or t["empty"])
    which = rng.choice(["empty", "code", "foreign", "own", "own", "longcr", "ignoreblock", "ignoreblock+own", "own+ignoreblock", "ignoreblock2", "ignoreblock-endstart", "sfx", "utf16", "contrib-top+far", "own+empty-sidecar"]) if st is not None and not uncomm else rng.choice(["empty", "code"])
    if binary:
        f.write_bytes(trees.BINARY_BLOB)
        prev_c, prev_l = set(), set()
    else:
        body, prev_c, prev_l = prior_content(rng, st, which) if st else (rng.choice(["", "K1 code\n"]), set(), set())
        if (uncomm or t is None and not forced_style) and (which in ("foreign", "own", "sfx", "contrib-top+far") or which.startswith(("ignoreblock", "own+"))):
            body, prev_c, prev_l, which = "K1 code\n", set(), set(), "code"
        if which == "own+empty-sidecar":
            # an empty FILE.license stands for the file: its own header is nobody's information, before and after
            (f.parent / (f.name + ".license")).write_text("")
        if which == "utf16":
            f.write_bytes(body.encode("utf-16"))
        else:
            with open(f, "w", encoding="utf-8", newline="") as fp:
                fp.write(body)
    empty_body = (not binary) and f.stat().st_size == 0
    # ---- options
    args = []
    hostile = rng.random() < 0.15
    holders = [rng.choice(HOSTILE_HOLDERS if hostile else PLAIN_HOLDERS)] + ([rng.choice(PLAIN_HOLDERS)] if rng.random() < 0.3 else [])
    holders = list(dict.fromkeys(holders))
    lics = [rng.choice(LICS)] + ([rng.choice(LICS)] if rng.random() < 0.25 else [])
    lics = list(dict.fromkeys(lics))
    contribs = [rng.choice(["Ann Contributor", "Bob <bob@example.com>", "Çağrı", "D'Arcy & Co <https://example.org/?a=1&b=2>", "Quote \"Q\" Person"])] if rng.random() < 0.3 else []
    if rng.random() < 0.12 and not hostile:
        # somebody who holds copyright and is named as contributor as well; a contributor whose name is part of a holder's name
        contribs = [rng.choice([holders[0], holders[0].split(" <")[0].split()[0]])]
    prefix = rng.choice(list(notice.PREFIXES)) if rng.random() < 0.6 else None
    yr = rng.random()
    if yr < 0.25:
        years, ytext = [], str(datetime.date.today().year)
    elif yr < 0.4:
        years, ytext = None, None  # --exclude-year
    elif yr < 0.75:
        y = str(rng.randint(1990, 2030))
        years, ytext = [y], y
    else:
        a, b = sorted([str(rng.randint(1990, 2009)), str(rng.randint(2010, 2030))])
        years, ytext = [b, a], f"{a} - {b}"
    for h in holders:
        args += ["-c", h]
    for lic in lics:
        args += ["-l", lic]
    for c in contribs:
        args += ["--contributor", c]
    if prefix:
        args += ["--copyright-prefix", prefix]
    if years is None:
        args.append("--exclude-year")
    else:
        for y in years:
            args += ["--year", y]
    mode = None
    if st is not None and not uncomm and not binary:
        r = rng.random()
        if r < 0.2 and st["single"]:
            mode = "--single-line"
        elif r < 0.45 and st["multi"][0] and st["multi"][2]:
            mode = "--multi-line"
    if mode:
        args.append(mode)
    if forced_style:
        args += ["--style", forced_style]
    template = None
    r = rng.random()
    if r < 0.12:
        template = rng.choice(CUSTOMS)
    elif r < 0.18:
        template = "nocontrib"
    elif r < 0.24:
        template = rng.choice(["droplic", "dropcop", "dropboth", "droplic-commented", "dropboth-commented", "misspelt"])
    elif r < 0.30 and short == "python" and not uncomm and not binary and mode is None:
        template = "commented"
    if template:
        args += ["--template", annot.template_arg(template)]
    dot = None
    r = rng.random()
    if r < 0.1 and not forced_style:
        dot = "--force-dot-license"
    elif t is None and not forced_style:
        dot = "--fallback-dot-license"
    if dot:
        args.append(dot)
    if empty_body and (dot or uncomm):
        # an empty file is not a covered file; with a .license carrier it would stay empty and lint would not report it
        f.write_text("K1 code\n", encoding="utf-8")
    cwd, gargs, fargs = annot.place(rng, root, [f])
    full = gargs + ["annotate"] + args + fargs
    before, _ = annot.read_back(root)
    rel = os.path.relpath(f, root)
    if before is not None and rel in before:
        prev_c, prev_l = before[rel]["cop"], before[rel]["lic"]
    bytes_before = annot.carrier_bytes(f)
    r = run_cli(full, cwd=cwd)
    res.n += 1
    desc = {"type": (t or {}).get("key"), "style": short, "mode": mode, "template": template, "dot": dot, "prefix": prefix, "hostile": hostile,
            "content": "binary" if binary else which, "years": years}
    if r.escaped:
        res.violation("escaped-exception", f"{r.exc_type} ({desc})", tb=r.exc_tb, args=args)
        return
    success = annot.succeeded(r, bytes_before, f)
    # --- classes that must succeed
    must = (not hostile) and template in FAITHFUL and r.exit_code != 2
    if template == "nocontrib" and contribs and not (holders or lics):
        must = False
    if which == "utf16" and not binary:
        must = False
    if must and not success:
        res.violation(f"plain-request-refused:{short}:{mode or 'default'}:{template or 'default'}", f"annotate did not succeed on a plain request ({desc})",
                      args=args, **r.brief())
        return
    if template in ("droplic", "dropcop", "dropboth", "droplic-commented", "dropboth-commented", "misspelt") and success:
        res.violation(f"success-with-information-dropping-template:{template}", f"annotate reports success although template {template} does not render "
                      f"the requested information ({desc})", args=args, written=open(annot.carrier_of(f), encoding="utf-8", errors="replace").read()[:500])
        return
    if not success:
        res.cell("refused:" + ("hostile" if hostile else (template or "other")))
        return
    # --- success => read-back exact
    after, rr = annot.read_back(root)
    if after is None or rel not in after:
        res.violation("annotated-file-not-linted", f"lint does not report the annotated file ({desc})", **rr.brief())
        return
    pfx = prefix or "spdx"
    want_c = set(prev_c) | {notice.build(pfx, ytext, h) for h in holders}
    want_l = set(prev_l) | set(lics)
    got_c, got_l = after[rel]["cop"], after[rel]["lic"]
    if got_c != want_c or got_l != want_l:
        kind = "copyright" if got_c != want_c else "licence"
        key = f"read-back-differs:{kind}:" + ("hostile-holder" if hostile else f"{short}:{mode or 'default'}:{template or 'default'}")
        req_c, req_l = want_c - set(prev_c), want_l - set(prev_l)
        if dot == "--force-dot-license" and (prev_c or prev_l) and got_c == req_c and got_l == req_l and not os.path.exists(str(f) + ".license.orig"):
            key = "force-dot-license-hides-in-file-header"
        res.violation(key, f"annotate succeeded but lint reads copyrights {sorted(got_c)} licences {sorted(got_l)}; expected {sorted(want_c)} / {sorted(want_l)} ({desc})",
                      args=args, written=open(annot.carrier_of(f), encoding="utf-8", errors="replace").read()[:600])
        return
    prior_contrib = {"Earlier Contributor"} if (which == "own" and not binary and dot != "--force-dot-license"
                                                and not annot.carrier_of(f).endswith(".license")) else set()
    if (contribs or prior_contrib) and template in (None, "commented") + CUSTOMS:
        gc = annot.read_contributors(f)
        if gc is not None and prior_contrib and not prior_contrib <= gc:
            res.violation(f"declared-contributor-dropped:{short}", f"the header declared contributor {sorted(prior_contrib)} before; after a successful annotate the "
                          f"extractor reads {sorted(gc)} ({desc})", args=args)
            return
        if gc is None or not set(contribs) <= gc:
            res.violation(f"contributors-not-read-back:{short}", f"contributors {contribs} requested, extractor reads {gc} ({desc})", args=args)
            return
    if which != "empty" or len(args) > 4:
        res.sigs.add(short_hash(sorted((k, str(v)) for k, v in desc.items()), holders, lics))
    res.cell("style:" + str(short))
    res.cell("content:" + ("binary" if binary else which))
    res.cell("mode:" + str(mode))
    res.cell("template:" + str(template))
    res.cell("prefix:" + str(prefix))
    res.cell("carrier:" + ("dot-license" if annot.carrier_of(f).endswith(".license") else "in-file"))
    if hostile:
        res.cell("hostile-success-exact")
    if sample:
        res.sample = {"desc": desc, "args": args, "written": open(annot.carrier_of(f), encoding="utf-8", errors="replace").read()[:400]}


def multi(res, ctx, root, rng, idx):
    """One invocation over several files (named or found with --recursive), each with its own earlier information, some with
    a FILE.license sidecar: every file must read back as *its own* earlier information plus the request - nothing may leak
    from one file of the run into another, and the header must land where the linter looks for it."""
    styles = ctx.state["styles"]
    d = root / f"m{idx}"
    d.mkdir()
    kinds = [("a.py", "python"), ("b.c", "c"), ("c.html", "html"), ("d.sh", "python"), ("e.rs", "cpp"), ("f.tex", "tex")]
    rng.shuffle(kinds)
    files = []
    for j, (name, short) in enumerate(kinds[: rng.randint(2, 5)]):
        f = d / name
        st = styles[short]
        prior = rng.choice(["none", "header", "sidecar", "header"])
        pc, pl = set(), set()
        if prior == "header":
            pc, pl = {f"SPDX-FileCopyrightText: 20{10 + j} Own Holder {j}"}, {["ISC", "0BSD", "Zlib", "MIT-0", "BSL-1.0"][j]}
            f.write_text(trees.comment_block(st, sorted(pc) + [""] + [f"SPDX-License-Identifier: {x}" for x in pl]) + "\n\nK code\n")
        else:
            f.write_text("K code\n")
            if prior == "sidecar":
                pc, pl = {f"SPDX-FileCopyrightText: 20{10 + j} Sidecar Holder {j}"}, {"Unlicense"}
                (d / (name + ".license")).write_text("\n".join(sorted(pc)) + "\nSPDX-License-Identifier: Unlicense\n")
        files.append((f, prior, pc, pl))
    # files whose header can only go to FILE.license (binary by content, a type that cannot carry comments) ride along: what is
    # decided for them holds for them alone
    for name in rng.sample(["data.csv", "logo.png", "table.json"], rng.choice([0, 1, 1, 2])):
        f = d / name
        if name.endswith(".png"):
            f.write_bytes(trees.BINARY_BLOB)
        else:
            f.write_text('{"a": 1}\n' if name.endswith(".json") else "a,b\n1,2\n")
        files.append((f, "none", set(), set()))
        res.cell("multi:with-dot-license-only-files")
    holder = rng.choice(PLAIN_HOLDERS)
    lic = rng.choice(LICS)
    recursive = rng.random() < 0.5
    # sometimes one or two files of the batch cannot be annotated at all (not UTF-8): then the run as a whole is not a success
    doomed = []
    for name in rng.sample(["legacy.c", "alt.py", "zz.sh"], rng.choice([0, 0, 1, 1, 2])):
        g = d / name
        body = b"".join(b"int value_%d = %d;\n" % (i, i) for i in range(12))
        g.write_bytes((b"/* caf\xe9 cr\xe8me */\n" if name.endswith(".c") else b"# na\xefve caf\xe9\n") + body)
        doomed.append((g, g.read_bytes()))
    cwd, gargs, fargs = annot.place(rng, root, [d] if recursive else [f for f, *_ in files] + [g for g, _ in doomed])
    if doomed and not recursive:
        rng.shuffle(fargs)
    args = ["-c", holder, "-l", lic, "--year", "2022"] + (["--merge-copyrights"] if rng.random() < 0.2 else [])
    r = run_cli(gargs + ["annotate"] + args + (["-r"] if recursive else []) + fargs, cwd=cwd)
    res.n += 1
    desc = {"files": [(f.name, p) for f, p, *_ in files], "recursive": recursive, "cannot-be-annotated": [g.name for g, _ in doomed]}
    if r.escaped or (r.exit_code != 0 and not doomed):
        res.violation("plain-multi-file-request-refused", f"annotate exit {r.exit_code} {r.exc_type} ({desc})", **r.brief())
        return
    if doomed:
        res.cell("multi:with-files-that-cannot-be-annotated")
        if r.exit_code == 0:
            res.violation("multi-file:success-although-a-file-got-no-header", f"annotate exit 0 although {[g.name for g, _ in doomed]} cannot be "
                          f"annotated ({desc})", **r.brief())
            return
        if r.exit_code != 1:
            res.violation("multi-file:exit-status", f"annotate exit {r.exit_code} for a batch in which some files fail ({desc})", **r.brief())
            return
        for g, was in doomed:
            if g.read_bytes() != was or os.path.exists(str(g) + ".license"):
                res.violation("multi-file:failed-file-changed", f"{g.name} could not be annotated but was changed ({desc})")
                return
    after, rr = annot.read_back(root)
    for f, prior, pc, pl in files:
        rel = os.path.relpath(f, root)
        got = (after or {}).get(rel)
        if got is None:
            res.violation("annotated-file-not-linted", f"{rel} not reported by lint ({desc})")
            return
        want_c = set(pc) | {notice.build("spdx", "2022", holder)}
        want_l = set(pl) | {lic}
        if prior == "header" and os.path.exists(str(f) + ".license"):
            res.violation("multi-file:dot-license-created-for-a-file-with-a-header", f"{rel}: FILE.license appeared next to a commentable file that "
                          f"carries its own header ({desc})")
            return
        if got["cop"] != want_c or got["lic"] != want_l:
            key = "multi-file:information-leaks-between-files" if (got["cop"] - want_c or got["lic"] - want_l) else \
                ("multi-file:header-not-where-the-linter-reads" if prior == "sidecar" else "multi-file:read-back-differs")
            res.violation(key, f"{rel} ({prior}): lint reads {sorted(got['cop'])} / {sorted(got['lic'])}, expected {sorted(want_c)} / {sorted(want_l)} ({desc})",
                          args=args)
            return
    res.sigs.add(short_hash("multi", sorted(map(str, desc["files"])), recursive, holder, lic))
    res.cell("multi:" + ("recursive" if recursive else "named"))
    for _f, prior, *_ in files:
        res.cell("multi-prior:" + prior)


def run_case(case, ctx):
    res = Res()
    root = ctx.scratch / f"c07-{case['kind']}-{case.get('chunk', case.get('k'))}-{case.get('rep', 0)}"
    root.mkdir()
    annot.install_templates(root)
    try:
        if case["kind"] == "multi":
            rng = rng_for(ctx.seed, "c07m", case["k"])
            for i in range(case["n"]):
                multi(res, ctx, root, rng, i)
        elif case["kind"] == "types":
            rng = rng_for(ctx.seed, "c07t", case["chunk"], case["rep"])
            for i, t in enumerate(ctx.state["types"][case["chunk"]::case["of"]]):
                one(res, ctx, root, rng, t, None, i, sample=(case["chunk"] == 0 and case["rep"] == 0 and i == 1))
                res.cell("type-entries")
        else:
            rng = rng_for(ctx.seed, "c07s", case["k"])
            for i in range(case["n"]):
                r = rng.random()
                if r < 0.45:
                    one(res, ctx, root, rng, None, rng.choice(ctx.state["names"]), i)
                elif r < 0.55:
                    one(res, ctx, root, rng, None, None, i)
                else:
                    one(res, ctx, root, rng, rng.choice(ctx.state["types"]), None, i)
    finally:
        shutil.rmtree(root, ignore_errors=True)
    return res.out()


NEEDED_CELLS = ["content:own", "content:foreign", "content:longcr", "content:ignoreblock", "content:ignoreblock+own", "content:own+ignoreblock",
                "content:ignoreblock2", "content:ignoreblock-endstart", "content:binary", "content:sfx", "content:utf16", "content:contrib-top+far", "content:own+empty-sidecar", "multi:with-files-that-cannot-be-annotated",
                "template:custom-html", "template:nocontrib", "multi:with-dot-license-only-files"]


def inconclusive_reasons(counters, finish, feats, tier):
    # a class that silently stopped being generated must not pass for "held"
    missing = [c for c in NEEDED_CELLS if not feats.get(c)]
    return [f"input classes never exercised: {missing}"] if missing else []
