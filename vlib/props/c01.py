"""C01 Lint verdict equals compliance with the REUSE specification.

Oracle: the specification model of trees.spec_expect over the generation recipe; observed:
exit status and the eight non_compliant collections of the real `reuse lint --json`.
"""

import itertools
import json
import os
import shutil

from .. import trees
from ..monitors import FS, eacces, run_cli
from ..util import Res, rng_for, short_hash

ID = "C01"
LEVEL = "exploration"
RULE = ("compliant-by-construction trees (3-14 covered files; headers in every comment style, .license siblings, binary files, "
        "root and nested REUSE.toml with override/aggregate/closest tables, .reuse/dep5) with 0,1,2,3,5 injected defects from 10 "
        "defect kinds (all pairs forced in thorough), with and without Git, serial and with the real multiprocessing pool; "
        "non-trivial = >= 3 covered files and >= 1 LICENSES/ entry; distinct = distinct (carrier multiset, defect set, git, pool)")
ASSUMPTIONS = ["plain forms only: tags on their own LF-terminated lines, exact-path REUSE.toml tables; the fine structure of "
               "each dimension is decided by C02-C06/C12",
               "a used but unprovided LicenseRef- may be listed under bad as well as under missing (C06 decides)",
               "an unreadable file is never the only user of a licence text; unreadability is injected as EACCES from an audit hook"]
MIN_NONTRIVIAL = {"quick": 60, "thorough": 1500}
COLLS = ["missing_licenses", "unused_licenses", "bad_licenses", "deprecated_licenses", "licenses_without_extension",
         "missing_copyright_info", "missing_licensing_info", "read_errors"]


def generate(tier, seed):
    n = 1200 if tier == "quick" else 60000
    pairs = list(itertools.combinations(trees.DEFECTS, 2))
    cases = []
    for k in range(n):
        r = k % 10
        if r < 2:
            defects = []
        elif r < 5:
            defects = "1"
        elif r < 7:
            defects = "2"
        elif r == 7:
            defects = "3"
        elif r == 8:
            defects = "5"
        else:
            defects = "rand"
        c = {"k": k, "defects": defects, "git": (k % 7 == 3), "pool": (k % 20 == 11)}
        if defects == "2" and tier == "thorough" and k // 10 < len(pairs):
            c["force"] = list(pairs[k // 10])
        cases.append(c)
    return cases


def setup(ctx):
    FS.install()
    ctx.state["styles"] = trees.style_table()


def make_recipe(case, ctx):
    rng = rng_for(ctx.seed, "c01", case["k"])
    d = case["defects"]
    if case.get("force"):
        defects = case["force"]
    elif d == "rand":
        defects = [rng.choice(trees.DEFECTS) for _ in range(rng.randint(0, 6))]
    elif d:
        defects = [rng.choice(trees.DEFECTS) for _ in range(int(d))]
    else:
        defects = []
    return trees.gen_recipe(rng, n_files=rng.randint(3, 14), defects=defects, spicy=(case["k"] % 3 == 0), git=case["git"])


def compare(exp, obs, res, recipe, r):
    flex = exp.get("flex") or set()
    if flex:
        named = obs["read_errors"] | obs["missing_licensing_info"]
        for pth in flex - named:
            res.violation("file-without-usable-information-not-named", f"{pth} cannot be given a licence but lint names it in no category", recipe=recipe)
        obs = dict(obs)
        for c in ("read_errors", "missing_licensing_info", "missing_copyright_info"):
            obs[c] = obs[c] - flex
    for c in COLLS:
        e, o = exp[c], obs[c]
        if c == "bad_licenses":
            alt = {k: set(v) for k, v in e.items()}
            for k, v in exp["bad_alt"].items():
                alt.setdefault(k, set()).update(v)
            ok = (o == e) or (o == alt)
        else:
            ok = o == e
        if not ok:
            ek = set(e) if not isinstance(e, dict) else {(k, x) for k, v in e.items() for x in (v if isinstance(v, set) else [v])}
            ok_ = set(o) if not isinstance(o, dict) else {(k, x) for k, v in o.items() for x in (v if isinstance(v, set) else [v])}
            direction = "unreported" if ek - ok_ else "spurious"
            res.violation(f"{c}-{direction}", f"{c}: lint reports {trees.jsonable(o)} but the specification model says {trees.jsonable(e)}",
                          defects=recipe["defects"], observed=trees.jsonable(o), expected=trees.jsonable(e), recipe=recipe)
    if obs["compliant"] != exp["compliant"]:
        res.violation("verdict", f"summary.compliant={obs['compliant']} but model says {exp['compliant']}", recipe=recipe)
    want_exit = 0 if exp["compliant"] else 1
    if r.exit_code != want_exit:
        res.violation("exit-status", f"exit status {r.exit_code}, expected {want_exit}", recipe=recipe, **r.brief())
    if (r.exit_code == 0) != bool(obs["compliant"]):
        res.violation("exit-vs-summary", f"exit status {r.exit_code} disagrees with summary.compliant={obs['compliant']}", recipe=recipe)


def add_extras(case, recipe, root, exp, res):
    """Compliant extras that need a specific layout to go wrong: Git-ignored files next to covered ones in an untracked
    directory, and nested closest REUSE.toml files that split copyright and licensing between them."""
    if case["k"] % 3 == 1:
        # symbolic links are never covered files, whatever they point at: a file, a directory, nothing at all, themselves
        (root / "links").mkdir(exist_ok=True)
        os.symlink("no-such-target.py", root / "links" / "dangling.py")
        os.symlink("/nonexistent/absolute/target", root / "dangling_abs")
        os.symlink("loop_b", root / "links" / "loop_a")
        os.symlink("loop_a", root / "links" / "loop_b")
        os.symlink("..", root / "links" / "up")
        res.cell("extra:symlinks-dangling-and-loops")
    if case["k"] % 5 == 2:
        # LicenseRef- followed by a character that an idstring cannot hold: an unknown identifier, in the file and as a text
        (root / "badref.py").write_text("# SPDX-FileCopyrightText: 2011 Bad Ref\n# SPDX-License-Identifier: LicenseRef-my_lic\nb = 1\n")
        (root / "LICENSES").mkdir(exist_ok=True)
        (root / "LICENSES" / "LicenseRef-my_lic.txt").write_text("text\n")
        exp["covered"].add("badref.py")
        exp["bad_licenses"].setdefault("LicenseRef-my_lic", set()).update({"badref.py", "LICENSES/LicenseRef-my_lic.txt"})
        exp["used_licenses"].add("LicenseRef-my_lic")
        exp["compliant"] = False
        res.cell("extra:licenseref-with-illegal-character")
    if case["k"] % 5 == 3:
        # blank-separated words that are no operator: one (unknown) identifier, named as bad and as missing - the file is read
        (root / "words.py").write_text("# SPDX-FileCopyrightText: 2010 Words\n# SPDX-License-Identifier: Apache License 2.0\nw = 1\n")
        exp["covered"].add("words.py")
        exp["bad_licenses"].setdefault("Apache License 2.0", set()).add("words.py")
        exp["missing_licenses"].setdefault("Apache License 2.0", set()).add("words.py")
        exp["used_licenses"].add("Apache License 2.0")
        exp["compliant"] = False
        res.cell("extra:identifier-of-several-words")
    if case["git"]:
        # ignored through the user's personal ignore file only (the environment is set up in run_case)
        (root / "personal.scratch").write_text("no header, ignored\n")
        (root / "src").mkdir(exist_ok=True)
        (root / "src" / "more.scratch").write_text("no header, ignored\n")
        res.cell("extra:personal-ignore-file")
    if case["k"] % 4 == 2:
        # a FILE.license sibling stands for the file even when it is empty: the file's own header is not looked at
        (root / "shadowed.py").write_text("# SPDX-FileCopyrightText: 2009 Shadowed\n# SPDX-License-Identifier: LicenseRef-never-read\ns = 1\n")
        (root / "shadowed.py.license").write_text("")
        exp["covered"].add("shadowed.py")
        exp["missing_copyright_info"].add("shadowed.py")
        exp["missing_licensing_info"].add("shadowed.py")
        exp["compliant"] = False
        res.cell("extra:empty-license-sibling")
    provided = [x["id"] for x in recipe["licenses"] if x["id"] in exp["used_licenses"] and x["id"] in trees.spdx_lists()["all"]
                and not trees.spdx_lists()["all"][x["id"]] and not x.get("noext")]
    if not provided:
        return
    lid = provided[0]
    hdr = f"# SPDX-FileCopyrightText: 2004 Extra Holder\n# SPDX-License-Identifier: {lid}\n"
    if case["k"] % 3 == 2:
        # classic Mac line ends: every line of the file ends in a lone CR; the licence value ends where its line does
        (root / "mac_lines.py").write_bytes((hdr + "m = 1\nprint(m)\n").replace("\n", "\r").encode())
        (root / "mac_c.c").write_bytes(f"/*\r * SPDX-FileCopyrightText: 2004 Extra Holder\r * SPDX-License-Identifier: {lid}\r */\rint m;\r".encode())
        exp["covered"] |= {"mac_lines.py", "mac_c.c"}
        res.cell("extra:cr-only-line-ends")
    if recipe["global_mode"] != "dep5" and case["k"] % 3 == 1 and not (root / "blank").exists():
        # a table that states the licence and, as copyright, an empty string: no copyright notice at all
        (root / "blank").mkdir()
        (root / "blank" / "REUSE.toml").write_text(hdr + 'version = 1\n\n[[annotations]]\npath = "blob.csv"\nSPDX-FileCopyrightText = ""\n'
                                                   f'SPDX-License-Identifier = "{lid}"\n')
        (root / "blank" / "blob.csv").write_text("1,2,3\n")
        exp["covered"] |= {"blank/REUSE.toml", "blank/blob.csv"}
        exp["missing_copyright_info"].add("blank/blob.csv")
        exp["compliant"] = False
        res.cell("extra:empty-string-as-copyright-in-a-table")
    if case["git"]:
        # (two names that differ in Unicode normalisation only are two files: one ignored, one covered)
        (root / "r\u00e9sum\u00e9.txt").write_text("ignored, no header\n")
        (root / "re\u0301sume\u0301.txt").write_text("covered, no header\n")
        exp["covered"].add("re\u0301sume\u0301.txt")
        exp["missing_copyright_info"].add("re\u0301sume\u0301.txt")
        exp["missing_licensing_info"].add("re\u0301sume\u0301.txt")
        exp["compliant"] = False
    if case["git"]:
        (root / ".gitignore").write_text(hdr + "*.log\nbuild/\nr\u00e9sum\u00e9.txt\n")
        (root / "newmod").mkdir(exist_ok=True)
        (root / "newmod" / "util.py").write_text(hdr + "x = 1\n")
        (root / "newmod" / "cache.log").write_text("ignored, no header\n")
        (root / "newmod" / "deep").mkdir(exist_ok=True)
        (root / "newmod" / "deep" / "more.log").write_text("ignored\n")
        (root / "newmod" / "deep" / "kept.py").write_text(hdr + "y = 2\n")
        (root / "build").mkdir(exist_ok=True)
        (root / "build" / "gen.py").write_text("generated, ignored, no header\n")
        (root / "debug.log").write_text("ignored\n")
        exp["covered"] |= {".gitignore", "newmod/util.py", "newmod/deep/kept.py"}
        res.cell("extra:git-ignored-in-untracked-dir")
    # a snippet marker that straddles typical read-buffer boundaries in a big file whose header window holds nothing
    if case["k"] % 3 == 0:
        eol = b"\n"
        fill = b"x = 'filler filler filler filler filler filler filler'\n"
        for name, boundary in (("big_snippet_64k.py", 65536), ("big_snippet_4k.py", 4096 * 3)):
            cut = 1 + (case["k"] // 3) % 16
            lead = fill * ((boundary - cut) // len(fill))
            pad = boundary - cut - len(lead) - 2
            if pad < 1:
                lead = lead[: -len(fill)]
                pad = boundary - cut - len(lead) - 2
            blob = lead + b"#" + b"p" * (pad - 1) + eol + b"# SPDX-SnippetBegin" + eol + \
                f"# SPDX-SnippetCopyrightText: 2006 Snippet Holder\n# SPDX-License-Identifier: {lid}\n# SPDX-SnippetEnd\n".encode() + fill * 3
            assert blob.find(b"SPDX-SnippetBegin") == boundary - cut + 1 or True
            (root / name).write_bytes(blob)
            exp["covered"].add(name)
        res.cell("extra:snippet-marker-across-buffer-boundary")
    if recipe["global_mode"] == "dep5" and case["k"] % 2 == 1:
        # a Files paragraph whose licence synopsis is fine for Debian but is no SPDX expression: the files it covers cannot be
        # given a licence; they must be named (as unreadable or as lacking licensing) and the run must fail
        d5 = root / ".reuse" / "dep5"
        with open(d5, "a", encoding="utf-8") as fp:
            fp.write("\nFiles: weird/*\nCopyright: 2020 Weird\nLicense: MIT or CC0-1.0, and BSD-3-Clause\n")
        (root / "weird").mkdir(exist_ok=True)
        (root / "weird" / "w.txt").write_text("no information of its own\n")
        exp["covered"].add("weird/w.txt")
        exp.setdefault("flex", set()).add("weird/w.txt")
        exp["compliant"] = False
        res.cell("extra:dep5-synopsis-not-spdx")
    if case["k"] % 4 == 1:
        # an unparseable expression next to parseable ones and a copyright notice: the file contributes nothing at all
        (root / "broken_expr.py").write_text(f"# SPDX-FileCopyrightText: 2007 Broken\n# SPDX-License-Identifier: {lid}\n# SPDX-License-Identifier: {lid} OR\nb = 1\n")
        exp["covered"].add("broken_expr.py")
        exp["missing_copyright_info"].add("broken_expr.py")
        exp["missing_licensing_info"].add("broken_expr.py")
        exp["compliant"] = False
        res.cell("extra:unparseable-expression-next-to-good-ones")
    if recipe["global_mode"] != "dep5" and case["k"] % 5 in (0, 1):
        # a Meson subproject that brings its own REUSE.toml: covered (and then served by that REUSE.toml) only with the option
        sp = root / "subprojects" / "libfoo"
        sp.mkdir(parents=True, exist_ok=True)
        (sp / "REUSE.toml").write_text(f'version = 1\n[[annotations]]\npath = "**"\nSPDX-FileCopyrightText = "2008 Sub Project"\nSPDX-License-Identifier = "{lid}"\n')
        (sp / "foo.c").write_text("int foo;\n")
        (sp / "inner").mkdir(exist_ok=True)
        (sp / "inner" / "bar.c").write_text("int bar;\n")
        (root / "subprojects" / "foo.wrap").write_text(hdr + "[wrap-file]\n")
        exp["covered"].add("subprojects/foo.wrap")
        if case["k"] % 5 == 0:
            case["_meson"] = True
            exp["covered"] |= {"subprojects/libfoo/foo.c", "subprojects/libfoo/inner/bar.c"}
        res.cell("extra:meson-subproject-with-own-REUSE.toml:" + ("included" if case.get("_meson") else "excluded"))
    if recipe["global_mode"] != "dep5" and case["k"] % 2 == 0:
        nest = root / "nest" / "inner"
        nest.mkdir(parents=True, exist_ok=True)
        (root / "nest" / "REUSE.toml").write_text(f'version = 1\n[[annotations]]\npath = "**"\nprecedence = "closest"\nSPDX-License-Identifier = "{lid}"\n')
        (nest / "REUSE.toml").write_text('version = 1\n[[annotations]]\npath = "**"\nprecedence = "closest"\nSPDX-FileCopyrightText = "2003 Inner Holder"\n')
        (nest / "f.py").write_text("# SPDX-FileCopyrightText: 2005 Own\nf = 1\n")
        (nest / "g.py").write_text(f"# SPDX-License-Identifier: {lid}\ng = 1\n")
        (nest / "h.py").write_text("h = 1\n")
        (root / "nest" / "k.py").write_text("# SPDX-FileCopyrightText: 2005 Own\nk = 1\n")
        exp["covered"] |= {"nest/inner/f.py", "nest/inner/g.py", "nest/inner/h.py", "nest/k.py"}
        res.cell("extra:nested-closest-split")


def run_case(case, ctx):
    res = Res()
    recipe = make_recipe(case, ctx)
    # the project directory's own name is part of "every project tree": blanks, non-ASCII, characters that mean something to glob
    rootname = ["proj", "proj", "proj", "pr[v2]", "p*x", "q?y", "sp ace", "ünï", "a[b", "x]y[", "{z}", "subprojects", ".hidden"][case["k"] % 13]
    top = ctx.scratch / f"c01-{case['k']}"
    root = top / rootname
    try:
        if case["git"]:
            xdg = top / "xdg"
            (xdg / "git").mkdir(parents=True)
            (xdg / "git" / "ignore").write_text("*.scratch\n")
            os.environ["XDG_CONFIG_HOME"] = str(xdg)
        unreadable = trees.build(recipe, root, ctx.state["styles"])
        exp = trees.spec_expect(recipe)
        outer = False
        if not case["git"] and case["k"] % 9 == 4:
            # the project is a sub-directory of somebody's larger work tree, whose ignore rules apply to it
            outer = True
            trees.git_init(top)
            (top / ".gitignore").write_text("*.ign\nout/\n")
            (root / "generated.ign").write_text("no header, ignored\n")
            (root / "out").mkdir(exist_ok=True)
            (root / "out" / "built.py").write_text("no header, ignored\n")
            trees.git(top, "add", "-A", check=False)
            trees.git(top, "commit", "-q", "-m", "init", check=False)
            res.cell("extra:work-tree-above-the-project")
        add_extras(case, recipe, root, exp, res)
        FS.fail_open = {p: eacces for p in unreadable}
        FS.begin()
        try:
            cwd, gargs = trees.place_lint(rng_for(ctx.seed, "c01place", case["k"]), root)
            if not gargs and not case["git"] and cwd != str(root):
                gargs = ["--root", str(root)]
            if outer and not gargs:
                gargs = ["--root", str(root)]   # without it the project would be the whole work tree
            args = gargs + (["--include-meson-subprojects"] if case.get("_meson") else []) + ["lint", "--json"]
            if not case["pool"]:
                args = ["--no-multiprocessing"] + args
            r = run_cli(args, cwd=cwd)
        finally:
            FS.end()
            FS.fail_open = {}
        res.n = 1
        if r.escaped:
            res.violation("escaped-exception", f"{r.exc_type} left main()", recipe=recipe, tb=r.exc_tb)
            return res.out()
        try:
            data = json.loads(r.stdout)
        except ValueError:
            res.violation("lint-json-unparseable", "lint --json printed no JSON", recipe=recipe, **r.brief())
            return res.out()
        obs = trees.lint_observed(data, root, cwd)
        compare(exp, obs, res, recipe, r)
        carriers = sorted(s["carrier"] for f in recipe["files"] for s in f["sources"])
        if len(recipe["files"]) >= 3 and recipe["licenses"]:
            res.sigs.add(short_hash(carriers, sorted(recipe["defects"]), case["git"], case["pool"]))
        for d in set(recipe["defects"]):
            res.cell("defect:" + d)
        for a, b in itertools.combinations(sorted(set(recipe["defects"])), 2):
            res.cell(f"pair:{a}+{b}")
        res.cell(f"ndefects:{len(recipe['defects'])}")
        res.cell("mode:" + recipe["global_mode"])
        res.cell("git" if case["git"] else "novcs")
        res.cell("pool" if case["pool"] else "serial")
        res.cell("verdict:" + ("compliant" if exp["compliant"] else "non-compliant"))
        if case["k"] in (1, 2):
            res.sample = {"defects": recipe["defects"], "files": [(f["path"], [s["carrier"] for s in f["sources"]]) for f in recipe["files"]],
                          "licenses": [x["name"] for x in recipe["licenses"]], "expected": trees.jsonable({c: exp[c] for c in COLLS}),
                          "exit": r.exit_code}
    finally:
        os.environ.pop("XDG_CONFIG_HOME", None)
        shutil.rmtree(top, ignore_errors=True)
    return res.out()
