"""C10 Re-running annotate with the same arguments changes nothing.

Observed: bytes of the file (and of its .license sibling) after the first and after the second
identical `reuse annotate` invocation, and the number of header blocks after N runs.
"""

import os
import shutil

from .. import annot, trees
from ..monitors import run_cli
from ..util import Res, rng_for, short_hash

ID = "C10"
LEVEL = "exploration"
RULE = ("every entry of the extension and file-name tables (complete in both tiers) x {default, --single-line, --multi-line where "
        "supported}; every --style value x modes on an unrecognised file; --force-dot-license; custom / pre-commented templates; "
        "prefix / year / contributor options; bodies {empty, code, own-style comment below a blank line, first-line "
        "declaration}; annotate twice (bytes equal) and N=5 times (one header block); non-trivial = non-empty body or non-default "
        "option; distinct = distinct (type, mode, options, body)")
ASSUMPTIONS = ["bodies are free of other REUSE tags (the property's own quantifier)"]
MIN_NONTRIVIAL = {"quick": 800, "thorough": 20000}


def generate(tier, seed):
    reps = 1 if tier == "quick" else 150
    cases = []
    for rep in range(reps):
        for chunk in range(48):
            cases.append({"kind": "types", "chunk": chunk, "of": 48, "rep": rep})
        for chunk in range(10):
            cases.append({"kind": "styles", "chunk": chunk, "of": 10, "rep": rep})
    for k in range(6 if tier == "quick" else 120):
        cases.append({"kind": "batch-seeds", "chunk": k, "rep": 0})
    return cases


def setup(ctx):
    ctx.state["types"] = annot.type_table()
    ctx.state["styles"] = trees.style_table()
    ctx.state["names"] = annot.style_names()


def bodies(rng, st, shebangs):
    out = [("empty", ""), ("code", "K1 code line\n    K2 indented\n\nK3 after blank\n")]
    if st is not None:
        out.append(("own-comment", "\n" + trees.comment_block(st, ["an ordinary comment", "second line"]) + "\nK1 code\n"))
        out.append(("own-comment-top", trees.comment_block(st, ["ordinary comment at the top"]) + "\nK1 code\n"))
    for sb in shebangs[:2]:
        out.append(("shebang", sb + " first line declaration\nK1 code\n"))
    # a byte order mark in front (files from Windows editors), alone and in front of a first-line declaration
    out.append(("blank-lead", "\n\n\nK1 code after three blank lines\n"))
    for sb in shebangs[:1]:
        out.append(("shebang-blank-lead", sb + " first line declaration\n\n\n\nK1 code\n"))
    out.append(("bom", "\ufeffK1 code line\nK2 more\n"))
    out.append(("bom-empty", "\ufeff"))
    for sb in shebangs[:1]:
        out.append(("bom-shebang", "\ufeff" + sb + " first line declaration\nK1 code\n"))
    return out


CONTRIBUTORS = ["Daniel Brown", "Carol", "Michael", "Example Ltd.", "IBM", "see https://example.com/", "Dash --", "Semi;", "Fortran c",
                "Bang!", "Percent %", "Quote '", "Ann Contributor", "Rem REM", "dots ..", "Hash #", "Lisp ;;;", "Star *", "x dnl",
                # a name typed with combining accents (decomposed form), a compatibility character: written and found again as typed
                "Rene\u0301 Mu\u0308ller", "\u212bngstro\u0308m Lab", "Joe Bloggs <joe@example.com>", "Q & A \"quoted\" O'Neil"]


def count_blocks(text, args):
    """Number of header blocks: occurrences of the first requested tag line's marker."""
    if "-l" in args:
        return text.count("SPDX-License-Identifier")
    if "-c" in args:
        holder = args[args.index("-c") + 1]
        return text.count(holder)
    if "--contributor" in args:
        return text.count("SPDX-FileContributor: " + args[args.index("--contributor") + 1])
    return 1


def mirror_tail(t, opts, styles):
    """A contributor whose tail equals the mirrored comment marker of the line it is written on (C02's known mechanism)."""
    st = styles.get((t or {}).get("short"))
    if not st:
        return False
    markers = {m.strip() for m in (st["single"], st["multi"][1]) if m and m.strip()}
    vals = [opts[i + 1] for i, a in enumerate(opts[:-1]) if a == "--contributor"]
    return any(v.endswith(m[::-1]) for v in vals for m in markers)


def classify(t, mode, opts):
    if t and t.get("short") == "julia" and (mode == "--multi-line"):
        return "julia-multi-line-header-not-found-again"
    return f"not-idempotent:{(t or {}).get('short', 'style')}:{mode or 'default'}"


def double_run(res, ctx, root, fname, body, args_extra, t, mode, label, rng, n_runs, raw=None):
    f = root / fname
    f.parent.mkdir(parents=True, exist_ok=True)
    if raw is not None:
        f.write_bytes(raw)
    else:
        f.write_text(body, encoding="utf-8", newline="")
    lic = str(f) + ".license"
    if os.path.exists(lic):
        os.unlink(lic)
    if "--year" not in args_extra and "--exclude-year" not in args_extra:
        os.utime(f, (1560000000, 1560000000))   # last modified in June 2019
        res.cell("file-last-modified-years-ago")
    cwd, gargs, fargs = annot.place(rng, root, [f])
    args = gargs + ["annotate"] + args_extra + ([mode] if mode else []) + fargs
    states = []
    for i in range(n_runs):
        r = run_cli(args, cwd=cwd)
        if r.escaped:
            res.violation("escaped-exception", f"annotate run {i + 1}: {r.exc_type}", tb=r.exc_tb, args=args[4:])
            return
        if r.exit_code != 0:
            if i == 0:
                res.cell("first-run-refused")
                return
            # a later run that is refused (e.g. the .license file it now targets does not support --single-line)
            # must still leave the bytes alone: fall through to the comparison
            res.cell("later-run-refused")
        a = f.read_bytes()
        b = open(lic, "rb").read() if os.path.exists(lic) else None
        # ... and no sidecar of a sidecar or other sibling appears on the way
        states.append((a, b, tuple(sorted(n for n in os.listdir(f.parent) if n.startswith(f.name)))))
    res.n += 1
    if states[1] != states[0]:
        key = classify(t, mode, args_extra)
        if mirror_tail(t, args_extra, ctx.state["styles"]) and len(states[1][0] if states[1][1] is None else states[1][1]) > len(states[0][0] if states[0][1] is None else states[0][1]):
            key = "contributor-ending-in-mirrored-comment-marker-duplicated-on-rerun"
        res.violation(key, f"{label}: second identical run changed the file",
                      args=args[4:-1], body=body, after1=states[0][0].decode("utf-8", "replace")[:600],
                      after2=states[1][0].decode("utf-8", "replace")[:600])
        return
    last = states[-1]
    text = (last[1] if last[1] is not None else last[0]).decode("utf-8", "replace")
    if count_blocks(text, args_extra) != 1:
        res.violation(classify(t, mode, args_extra) + ":blocks", f"{label}: {count_blocks(text, args_extra)} copies of the requested tag after {n_runs} runs (one requested)",
                      args=args[4:-1], text=text[:600])
    if body or args_extra[4:]:
        res.sigs.add(short_hash(fname, mode, args_extra, body))


def run_case(case, ctx):
    res = Res()
    rng = rng_for(ctx.seed, "c10", case["kind"], case["chunk"], case["rep"])
    root = ctx.scratch / f"c10-{case['kind']}-{case['chunk']}-{case['rep']}"
    root.mkdir()
    annot.install_templates(root, ["custom", "commented", "nocontrib", "fixedtag"])
    styles = ctx.state["styles"]
    try:
        if case["kind"] == "batch-seeds":
            # one invocation over several files with different histories, repeated in fresh processes whose hash seeds differ
            # (the order in which the files are taken is the order of a set): after the first run nothing changes any more
            import subprocess

            from .. import env

            d = root / "batch"
            d.mkdir()
            names = ["a.py", "b.py", "c.c", "d.sh", "e.rs", "f.py"]
            (d / "a.py").write_text("# SPDX-FileCopyrightText: 2001 Alice Example\n\nprint('a')\n")
            (d / "b.py").write_text("print('b')\n")
            (d / "c.c").write_text("/*\n * SPDX-FileCopyrightText: 2003 Carol Example\n * SPDX-License-Identifier: 0BSD\n */\n\nint c;\n")
            (d / "d.sh").write_text("#!/bin/sh\n# SPDX-FileCopyrightText: 2004 Dave Example\n\necho d\n")
            (d / "e.rs").write_text("fn main() {}\n")
            (d / "f.py").write_text("# SPDX-FileCopyrightText: 2006 Frank Example\n# SPDX-License-Identifier: ISC\n\nprint('f')\n")
            args = ["annotate", "-c", "Jane Doe", "-l", "MIT", "--year", "2020"] + rng.choice([[], ["--merge-copyrights"], ["--contributor", "Con Tributor"]])
            order = names[:]
            rng.shuffle(order)
            states = []
            for run, seed in enumerate(rng.sample(["0", "1", "2", "3", "4", "5", "6", "7"], 4)):
                p = subprocess.run([env.PY, "-m", "vlib.launch", "--", "--root", str(root)] + args + order, cwd=str(d),
                                   env=env.child_env(PYTHONHASHSEED=seed), stdout=subprocess.PIPE, stderr=subprocess.PIPE, timeout=180)
                if p.returncode != 0:
                    res.violation("batch-run-failed", f"annotate over six files exit {p.returncode}", stderr=p.stderr.decode(errors="replace")[-500:])
                    break
                states.append({n: (d / n).read_bytes() for n in names})
                res.n += 1
                if run and states[-1] != states[0]:
                    diff = [n for n in names if states[-1][n] != states[0][n]]
                    res.violation("not-idempotent:batch-under-another-hash-seed", f"run {run + 1} (PYTHONHASHSEED={seed}) of the identical command "
                                  f"changed {diff}", after1=states[0][diff[0]].decode()[:400], after=states[-1][diff[0]].decode()[:400])
                    break
                res.sigs.add(short_hash("batch-seeds", case["chunk"], seed, args))
            res.cell("batch-under-different-hash-seeds")
        elif case["kind"] == "types":
            types = ctx.state["types"][case["chunk"]::case["of"]]
            for t in types:
                st = styles.get(t["short"])
                modes = [None]
                if not t["uncommentable"] and not t["empty"]:
                    if t["single"]:
                        modes.append("--single-line")
                    if t["multi"]:
                        modes.append("--multi-line")
                for mode in modes:
                    bl = bodies(rng, st, t["shebangs"])
                    chosen = bl if case["rep"] == 0 and mode is None else [rng.choice(bl)]
                    if case["rep"] == 0 and mode is not None:
                        chosen = [bl[1], rng.choice(bl)]
                    for bname, body in chosen:
                        extra = ["-c", "Jane Doe", "-l", "MIT", "--year", "2020"]
                        r = rng.random()
                        if rng.random() < 0.25:
                            # one kind of information only, non-SPDX prefixes, contributors with every kind of ending
                            k2 = rng.random()
                            if k2 < 0.4:
                                extra = ["-c", rng.choice(["Jane Doe", "ACME, Inc.", "Rene\u0301 Mu\u0308ller", "\u212bngstro\u0308m Lab"]), "--year", "2020", "--copyright-prefix",
                                         rng.choice(["string", "string-c", "string-symbol", "symbol", "spdx", "spdx-symbol"])]
                            elif k2 < 0.6:
                                extra = ["-l", rng.choice(["MIT", "GPL-3.0-or-later OR MIT"])]
                            elif k2 < 0.8:
                                extra = ["--contributor", rng.choice(CONTRIBUTORS)]
                            else:
                                extra += ["--contributor", rng.choice(CONTRIBUTORS), "--contributor", rng.choice(CONTRIBUTORS)]
                        elif case["rep"] > 0 or bname == "code":
                            if r < 0.15:
                                extra += ["--contributor", "Ann Contributor"]
                            elif r < 0.3:
                                extra += ["--copyright-prefix", rng.choice(["string", "spdx-symbol", "string-c", "symbol"])]
                            elif r < 0.36:
                                extra += ["--template", "custom"]
                            elif r < 0.4:
                                # a custom template and values with characters that mean something to HTML
                                extra += ["--template", "custom", "--contributor", rng.choice(["Joe Bloggs <joe@example.com>", "Q & A \"quoted\" O'Neil"])]
                            elif r < 0.5:
                                extra = ["-c", "Jane Doe", "-c", "Other Holder <o@example.com>", "-l", "MIT", "--exclude-year"]
                            elif r < 0.55:
                                extra += ["--force-dot-license"]
                            elif r < 0.6:
                                extra += ["--merge-copyrights"]
                            elif r < 0.68:
                                # no year option: the current year - whenever the file was last touched (double_run makes it an old file)
                                extra = ["-c", "Jane Doe", "-l", "MIT"] + rng.choice([[], ["--force-dot-license"], ["--copyright-prefix", "string-c"]])
                            elif r < 0.7:
                                extra = ["-c", "Jane Doe", "-l", "MIT", "--year", "2016", "--year", rng.choice(["2020", "2011", "2016"]),
                                         "--merge-copyrights"] + rng.choice([[], ["--copyright-prefix", "string-c"], ["-c", "Second Holder"]])
                            elif r < 0.72:
                                extra += ["--template", "fixedtag"]
                            elif r < 0.74:
                                # expressions with an exception, and ones Boolean algebra could shorten
                                extra = ["-c", "Jane Doe", "--year", "2020", "-l", rng.choice(["GPL-2.0-or-later WITH Classpath-exception-2.0",
                                         "MIT OR (MIT AND ISC)", "Apache-2.0 WITH LLVM-exception OR MIT"])]
                            elif r < 0.77:
                                # a header longer than any "header window": several KiB of notices
                                extra = ["-l", "MIT", "--year", "2020"]
                                for h in range(rng.randint(75, 95)):
                                    extra += ["-c", f"Holder Number {h:03d} of a very long list <holder{h}@example.com>"]
                        double_run(res, ctx, root, f"d{len(res.sigs)}_{res.n}/" + t["fname"], body, extra, t, mode,
                                   f"{t['key']} ({t['short']}) body={bname}", rng, 5 if rng.random() < 0.3 else 2)
                        res.cell(f"style:{t['short']}")
                        res.cell(f"mode:{mode or 'default'}")
                        res.cell(f"body:{bname}")
                res.cell("type-entries")
            if case["chunk"] == 0 and case["rep"] == 0:
                res.sample = {"type": types[0]["key"], "style": types[0]["short"], "args": "annotate -c 'Jane Doe' -l MIT --year 2020 [--single-line|--multi-line] FILE (twice)"}
        else:
            names = ctx.state["names"][case["chunk"]::case["of"]]
            for name in names:
                st = styles.get(name)
                for mode in [None, "--single-line", "--multi-line"]:
                    if mode == "--single-line" and not st["single"]:
                        continue
                    if mode == "--multi-line" and not (st["multi"][0] and st["multi"][2]):
                        continue
                    for bname, body in bodies(rng, st, st["shebangs"])[:3]:
                        extra = ["-c", "Jane Doe", "-l", "MIT", "--year", "2020", "--style", name]
                        if rng.random() < 0.2:
                            extra += ["--template", "custom"]
                        double_run(res, ctx, root, f"s{res.n}/unknown.zzz", body, extra, {"short": name}, mode,
                                   f"--style {name} body={bname}", rng, 5 if rng.random() < 0.3 else 2)
                        res.cell(f"forced-style:{name}")
                # a forced style and files whose header goes to FILE.license whatever the style says: binary by content,
                # uncommentable by extension
                for fn, raw in (("logo.png", trees.BINARY_BLOB), ("blob.dat", trees.BINARY_BLOB + b"more"), ("data.json", b'{"a": 1}\n'),
                                ("tool", trees.BINARY_BLOB)):
                    if rng.random() < 0.5:
                        continue
                    extra = ["-c", "Jane Doe", "-l", "MIT", "--year", "2020", "--style", name] + rng.choice([[], [], ["--fallback-dot-license"]])
                    double_run(res, ctx, root, f"b{res.n}/{fn}", "", extra, {"short": name}, None, f"--style {name} on {fn}", rng, 3, raw=raw)
                    res.cell("forced-style-on-binary-or-uncommentable")
            # pre-commented template (python shaped) on python files
            for bname, body in bodies(rng, styles["python"], ["#!"]):
                double_run(res, ctx, root, f"c{res.n}/x.py", body, ["-c", "Jane Doe", "-l", "MIT", "--year", "2020", "--template", "precom"],
                           {"short": "python"}, None, f"commented template body={bname}", rng, 2)
                res.cell("commented-template")
    finally:
        shutil.rmtree(root, ignore_errors=True)
    return res.out()
