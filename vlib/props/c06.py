"""C06 Licence inventory: missing, unused, bad, deprecated and extension-less licences.

Oracle: set algebra over used identifiers U and provided identifiers P, both known from the
recipe; observed: the five licence collections and summary.used_licenses of `reuse lint --json`.
"""

import json
import os
import shutil

from .. import trees
from ..monitors import run_cli
from ..util import Res, rng_for, short_hash

ID = "C06"
LEVEL = "exploration"
RULE = ("per tree ~45 identifiers, each assigned (class in {current, deprecated, exception, LicenseRef, unknown, wrong case}) x "
        "(use in {alone, +, AND, OR, WITH, parentheses, several tags, unused} via header / .license / REUSE.toml / dep5) x "
        "(provision in {absent, ID.txt, ID.md, ID, sub/ID.txt, ID+.txt, ID.txt + ID.txt.license}); thorough sweeps the whole "
        "bundled SPDX list; non-trivial = identifier cell with a use or a provision; distinct = distinct (identifier, use, "
        "provision, carrier) cells")
ASSUMPTIONS = ["identifier classes are read from the bundled licenses.json / exceptions.json (data)",
               "grey (not generated): two LICENSES/ files resolving to one identifier, LicenseRef-*Unknown*, extension-less "
               "names that are not SPDX identifiers, '+' on LicenseRef-/unknown identifiers"]
MIN_NONTRIVIAL = {"quick": 1500, "thorough": 30000}
COLLS = ["missing_licenses", "unused_licenses", "bad_licenses", "deprecated_licenses", "licenses_without_extension", "used_licenses"]

USES = ["alone", "plus", "and", "or", "with", "paren", "tags", "absorbed", "unused"]
PROVS = ["absent", "txt", "md", "noext", "sub", "plusfile", "withlicense", "linkdir"]
HELPER = "MIT"
HELPER_EXC = "LLVM-exception"


def generate(tier, seed):
    n = 450 if tier == "quick" else 12000
    return [{"k": k} for k in range(n)]


def setup(ctx):
    sp = trees.spdx_lists()
    cur = sorted(i for i, d in sp["licenses"].items() if not d and i != HELPER)
    dep = sorted(i for i, d in sp["licenses"].items() if d)
    exc = sorted(i for i, d in sp["exceptions"].items() if i != HELPER_EXC)
    ctx.state["pools"] = {"current": cur, "deprecated": dep, "exception": exc}
    ctx.state["styles"] = trees.style_table()


def pick_ids(case, ctx, rng):
    """~45 distinct identifiers with a class; thorough sweeps the lists by position."""
    pools = ctx.state["pools"]
    k = case["k"]
    out = []

    def sweep(pool, count, salt):
        n = len(pool)
        start = (k * count + salt) % n
        return [pool[(start + j) % n] for j in range(count)]

    for i in sweep(pools["current"], 18, 0):
        out.append((i, "current"))
    for i in sweep(pools["deprecated"], 7, 3):
        out.append((i, "deprecated"))
    for i in sweep(pools["exception"], 6, 5):
        out.append((i, "exception"))
    for j in range(6):
        out.append((f"LicenseRef-{rng.choice(['custom', 'Prop.v', 'my-lic', 'X9'])}{k}-{j}", "licenseref"))
    for j in range(4):
        out.append((rng.choice(["Foo", "my_license", "GPL-9.", "Weird.Lic", "Proprietary"]) + f"{k}x{j}", "unknown"))
    for j in range(2):
        # the LicenseRef- prefix is case-sensitive like everything else: these are plain unknown identifiers
        out.append((rng.choice(["licenseref-", "LICENSEREF-", "Licenseref-", "licenseRef-"]) + f"odd{k}x{j}", "unknown"))
    for i in sweep(pools["current"], 4, 11):
        wc = i.lower() if i.lower() != i else i.upper()
        if wc not in trees.spdx_lists()["all"] and all(wc != o[0] for o in out):
            out.append((wc, "wrongcase"))
    seen, uniq = set(), []
    for i, c in out:
        if i not in seen and i.lower() not in {s.lower() for s in seen}:
            seen.add(i)
            uniq.append((i, c))
    return uniq


def build_recipe(case, ctx):
    rng = rng_for(ctx.seed, "c06", case["k"])
    ids = pick_ids(case, ctx, rng)
    mode = ["none", "toml", "dep5"][case["k"] % 3]
    files, licenses, extra, cells = [], [], [], []
    U, P = set(), {}
    noext = {}
    P[HELPER] = "LICENSES/MIT.txt"
    P[HELPER_EXC] = "LICENSES/LLVM-exception.txt"
    licenses.append({"name": "MIT.txt", "id": HELPER})
    licenses.append({"name": "LLVM-exception.txt", "id": HELPER_EXC})
    U.update([HELPER])
    files.append({"path": "helper.py", "kind": "text", "style": "python", "multi": False,
                  "sources": [{"carrier": "header", "copyrights": ["2020 H"], "exprs": [("with", HELPER, HELPER_EXC)], "toml_dir": ""}]})
    U.add(HELPER_EXC)
    n = 0
    forced = {}
    if case["k"] % 4 == 0:
        # SPDX identifiers that contain another identifier followed by a dot: provided without extension they must not be
        # taken for the shorter one plus an "extension"
        from pathlib import PurePath

        sp_all = trees.spdx_lists()["all"]
        dotted = sorted(i for i in sp_all if PurePath(i).suffix and PurePath(i).stem in sp_all)
        pick = dotted[(case["k"] // 4) % len(dotted)]
        ids = [(i, c) for i, c in ids if i not in (pick, PurePath(pick).stem)]
        ids += [(pick, "deprecated" if sp_all[pick] else "current")]
        forced[pick] = ("alone", "noext")
        if (case["k"] // 4) % 2 == 0:
            stem = PurePath(pick).stem
            ids += [(stem, "deprecated" if sp_all[stem] else "current")]
            forced[stem] = ("alone", "txt")
    for ident, cls in ids:
        use = USES[(case["k"] + n) % len(USES)] if rng.random() < 0.5 else rng.choice(USES)
        prov = PROVS[(case["k"] * 3 + n) % len(PROVS)] if rng.random() < 0.5 else rng.choice(PROVS)
        if ident in forced:
            use, prov = forced[ident]
        n += 1
        # --- legality of the cell
        plus_ok = cls in ("current", "deprecated") and not ident.endswith("+")
        if cls == "licenseref" and use == "plus" and prov in ("txt", "md", "sub", "withlicense"):
            plus_ok = True  # a provided LicenseRef- used as 'LicenseRef-x+' (the unprovided case stays grey)
        if use == "plus" and not plus_ok:
            use = "alone"
        if cls == "exception":
            use = "with" if use != "unused" else "unused"
        elif use == "with" and cls not in ("current", "deprecated"):
            use = "and"
        if prov == "noext" and cls not in ("current", "deprecated", "exception") and not (cls == "licenseref" and "." not in ident):
            prov = "txt"
        if prov == "plusfile" and not plus_ok:
            prov = "txt"
        if ident.endswith("+") and prov == "noext":
            prov = "txt"
        carriers = ["header", "dotlicense"] + (["toml-aggregate", "toml-override"] if mode == "toml" else ["dep5"] if mode == "dep5" else [])
        carrier = rng.choice(carriers)
        # --- use
        used_as = None
        if use != "unused":
            if use == "alone":
                exprs = [("id", ident)]
                used_as = ident
            elif use == "plus":
                exprs = [("id", ident + "+")]
                used_as = ident + "+"
            elif use == "and":
                exprs = [("and", [("id", ident), ("id", HELPER)])]
                used_as = ident
            elif use == "or":
                exprs = [("or", [("id", HELPER), ("id", ident)])]
                used_as = ident
            elif use == "with":
                exprs = [("with", HELPER, ident)] if cls == "exception" else [("with", ident, HELPER_EXC)]
                used_as = ident
            elif use == "paren":
                exprs = [("and", [("id", HELPER), ("or", [("id", ident), ("id", "LicenseRef-helper")])])]
                used_as = ident
                U.add("LicenseRef-helper")
            elif use == "tags":
                exprs = [("id", HELPER), ("id", ident)]
                used_as = ident
                if carrier == "dep5":
                    carrier = "header"
            elif use == "absorbed":
                # one expression logically absorbs the other (A AND (A OR X) == A): X is used all the same
                exprs = [("id", HELPER), ("or", [("id", HELPER), ("id", ident)])]
                used_as = ident
                if carrier == "dep5":
                    carrier = "header"
            U.add(used_as)
            style = rng.choice(["python", "c", "html", "lisp", "jinja"])
            tail = used_as[-1]
            if tail in "dnl" and not used_as.endswith("lnd") and rng.random() < 0.6:
                style = "m4"   # a comment marker made of letters, and an identifier that ends in one of them
            elif tail in "REM" and not used_as.endswith("MER") and rng.random() < 0.6:
                style = "bat"
            files.append({"path": f"f{n}.txt", "kind": "text", "style": style, "multi": False,
                          "sources": [{"carrier": carrier, "copyrights": ["2021 Someone"], "exprs": exprs, "toml_dir": ""}]})
        # --- provision (never two files for one identifier: that is C16's business)
        pkey = ident + "+" if prov == "plusfile" else ident
        if prov != "absent" and pkey in P:
            prov = "absent"
        if prov == "txt":
            licenses.append({"name": f"{ident}.txt", "id": ident})
            P[ident] = f"LICENSES/{ident}.txt"
        elif prov == "md":
            licenses.append({"name": f"{ident}.md", "id": ident})
            P[ident] = f"LICENSES/{ident}.md"
        elif prov == "noext":
            licenses.append({"name": ident, "id": ident, "noext": True})
            P[ident] = f"LICENSES/{ident}"
            if cls != "licenseref":
                noext[ident] = f"LICENSES/{ident}"  # only SPDX-named texts are reported as lacking an extension
        elif prov == "sub":
            licenses.append({"name": f"deep/er/{ident}.txt", "id": ident})
            P[ident] = f"LICENSES/deep/er/{ident}.txt"
        elif prov == "linkdir":
            # in a sub-directory of LICENSES/ that is a symbolic link to a shared place outside the project
            licenses.append({"name": f"shared/{ident}.txt", "id": ident, "linkdir": True})
            P[ident] = f"../shared-licenses/{ident}.txt"   # as the report normaliser spells it (links resolved)
        elif prov == "plusfile":
            licenses.append({"name": f"{ident}+.txt", "id": ident + "+"})
            P[ident + "+"] = f"LICENSES/{ident}+.txt"
        elif prov == "withlicense":
            licenses.append({"name": f"{ident}.txt", "id": ident})
            P[ident] = f"LICENSES/{ident}.txt"
            extra.append({"path": f"LICENSES/{ident}.txt.license", "text": "SPDX-FileCopyrightText: 2020 X\nSPDX-License-Identifier: CC0-1.0\n"})
        cells.append((ident, cls, use, prov, carrier if use != "unused" else "-"))
    if mode == "toml":
        # several REUSE.toml files speak about one file: an aggregate table further out and an override table nearer to it.
        # Every identifier of every source that applies counts as used.
        a, b = f"LicenseRef-outer-aggregate-{case['k']}", f"LicenseRef-inner-override-{case['k']}"
        files.append({"path": "ovr/gen/table.c", "kind": "text", "style": "c", "multi": False,
                      "sources": [{"carrier": "toml-aggregate", "copyrights": ["2021 Outer"], "exprs": [("id", a)], "toml_dir": ""},
                                  {"carrier": "toml-override", "copyrights": ["2021 Inner"], "exprs": [("id", b)], "toml_dir": "ovr"}]})
        U.update([a, b])
        cells.append((a, "licenseref", "alone", "absent", "toml-aggregate"))
        cells.append((b, "licenseref", "alone", "absent", "toml-override"))
    if case["k"] % 4 == 1:
        # an identifier whose only use is a snippet deep inside a big file, the SnippetBegin marker lying across a 4 KiB / 64 KiB
        # offset: used, and its text therefore not unused
        sn = f"LicenseRef-snippet-only-{case['k']}"
        boundary = [65536, 4096 * 5, 131072][(case["k"] // 4) % 3]
        cut = 3 + (case["k"] // 12) % 15
        fill = "x = 'filler filler filler filler filler filler filler'\n"
        lead = fill * ((boundary - cut - 40) // len(fill))
        lead += "#" + "p" * (boundary - cut - len(lead) - 2) + "\n"
        text = lead + f"# SPDX-SnippetBegin\n# SPDX-SnippetCopyrightText: 2006 Snippet Holder\n# SPDX-License-Identifier: {sn}\n# SPDX-SnippetEnd\n" + fill * 3
        assert boundary - 20 < text.index("SPDX-SnippetBegin") < boundary
        extra.append({"path": "big_snippet.py", "text": text})
        licenses.append({"name": f"{sn}.txt", "id": sn})
        P[sn] = f"LICENSES/{sn}.txt"
        U.add(sn)
        cells.append((sn, "licenseref", "snippet-far-down", "txt", "header"))
    if case["k"] % 4 == 3:
        # a LicenseRef- text without file extension whose name another project - linted just before in the same process - ships
        # too: what one project provides says nothing about the next (only SPDX-named texts are told off for a missing extension)
        rc = f"LicenseRef-recurring-{case['k']}"
        licenses.append({"name": rc, "id": rc, "noext": True})
        P[rc] = f"LICENSES/{rc}"
        U.add(rc)
        files.append({"path": "recurring.py", "kind": "text", "style": "python", "multi": False,
                      "sources": [{"carrier": "header", "copyrights": ["2022 Recurring"], "exprs": [("id", rc)], "toml_dir": ""}]})
        cells.append((rc, "licenseref", "alone", "noext-after-other-project", "header"))
    if "LicenseRef-helper" in U:
        licenses.append({"name": "LicenseRef-helper.txt", "id": "LicenseRef-helper"})
        P["LicenseRef-helper"] = "LICENSES/LicenseRef-helper.txt"
    recipe = {"files": files, "licenses": licenses, "global_mode": mode, "git": False, "defects": [], "extra": extra}
    return recipe, U, P, noext, cells


def model(recipe, U, P, noext):
    sp = trees.spdx_lists()["all"]
    sp_plus = trees.strip_plus

    def addplus(x):
        return x if x.endswith("+") else x + "+"

    def valid(x):
        return x in sp or trees.is_licenseref(x)

    users = {}
    for f in recipe["files"]:
        for s in f["sources"]:
            for e in s["exprs"]:
                for i in trees.expr_ids(e):
                    users.setdefault(i, set()).add(f["path"])
    exp = {}
    exp["used_licenses"] = set(U)
    exp["missing_licenses"] = {u: users[u] for u in U if u not in P and sp_plus(u) not in P}
    exp["unused_licenses"] = {p for p in P if p not in U and addplus(p) not in U}
    bad = {}
    for u in U:
        if not (valid(u) or valid(sp_plus(u))):
            bad.setdefault(u, set()).update(users[u])
    for p, path in P.items():
        if not valid(p):
            bad.setdefault(p, set()).add(path)
    exp["bad_licenses"] = bad
    exp["deprecated_licenses"] = {p for p in P if sp.get(p) is True}
    exp["licenses_without_extension"] = dict(noext)
    return exp


def classify(coll, ident, direction, cells_by_id):
    cell = cells_by_id.get(trees.strip_plus(ident)) or cells_by_id.get(ident)
    if coll == "bad_licenses" and direction == "spurious" and trees.is_licenseref(ident):
        return "unprovided-licenseref-listed-as-bad"
    if cell:
        return f"{coll}-{direction}:{cell[1]}/{cell[2]}/{cell[3]}"
    return f"{coll}-{direction}"


def run_case(case, ctx):
    res = Res()
    recipe, U, P, noext, cells = build_recipe(case, ctx)
    exp = model(recipe, U, P, noext)
    cells_by_id = {c[0]: c for c in cells}
    top, root = trees.odd_root(ctx.scratch, "c06", case["k"])
    try:
        trees.build(recipe, root, ctx.state["styles"])
        if (root / "LICENSES" / "shared").is_dir():
            outside = top / "shared-licenses"
            shutil.move(str(root / "LICENSES" / "shared"), str(outside))
            os.symlink(str(outside), root / "LICENSES" / "shared")
            res.cell("licenses:linked-directory")
        if case["k"] % 6 == 5:
            # a repository whose ignore rules happen to match some of the licence texts: a text in LICENSES/ counts, tracked or not
            trees.git_init(root)
            (root / ".gitignore").write_text("/LICENSES/deep/\n*.md\n")
            trees.git(root, "add", "-A", check=False)
            trees.git(root, "commit", "-q", "-m", "init", check=False)
            res.cell("licenses:git-ignored-texts")
        if case["k"] % 4 == 3:
            prelude = top / "prelude project"
            (prelude / "LICENSES").mkdir(parents=True)
            rc = f"LicenseRef-recurring-{case['k']}"
            (prelude / "LICENSES" / f"{rc}.txt").write_text("text\n")
            (prelude / "p.py").write_text(f"# SPDX-FileCopyrightText: 2022 P\n# SPDX-License-Identifier: {rc}\n")
            run_cli(["--no-multiprocessing", "--root", str(prelude), "lint", "--json"], cwd=str(prelude))
            res.cell("another-project-linted-first-in-the-same-process")
        cwd, gargs = trees.place_lint(rng_for(ctx.seed, "c06place", case["k"]), root)
        r = run_cli(["--no-multiprocessing"] + gargs + ["lint", "--json"], cwd=cwd)
        res.n = len(cells)
        if r.escaped:
            res.violation("escaped-exception", f"{r.exc_type} left main()", tb=r.exc_tb, cells=cells[:10])
            return res.out()
        try:
            data = json.loads(r.stdout)
        except ValueError:
            res.violation("lint-json-unparseable", "no JSON", **r.brief())
            return res.out()
        obs = trees.lint_observed(data, root, cwd)
        # the line-per-problem rendering names every (file, identifier) pair of the two per-file licence collections
        rl = run_cli(["--no-multiprocessing"] + gargs + ["lint", "--lines"], cwd=cwd)
        if not rl.escaped:
            import re as _re

            seen = {"missing_licenses": set(), "bad_licenses": set()}
            for line in rl.stdout.splitlines():
                m = _re.match(r"^(.*): (missing|bad) license '?(.*?)'?$", line)
                if m:
                    seen[m.group(2) + "_licenses"].add((trees.norm_path(m.group(1), root, cwd), m.group(3)))
            for c in ("missing_licenses", "bad_licenses"):
                want_pairs = {(pth, ident) for ident, paths in obs[c].items() for pth in paths}
                if seen[c] != want_pairs and (seen[c] or want_pairs):
                    lost = sorted(want_pairs - seen[c])[:4]
                    extra = sorted(seen[c] - want_pairs)[:4]
                    res.violation(f"lines-vs-json:{c}", f"lint --lines and lint --json disagree on {c}: only in JSON {lost}, only in lines {extra}",
                                  lines=rl.stdout[-600:])
            res.cell("lines-cross-check")
        for c in COLLS:
            e, o = exp[c], obs[c]
            if e == o:
                continue
            ek = set(e)
            ok = set(o)
            for ident in sorted(ek - ok):
                res.violation(classify(c, ident, "unreported", cells_by_id), f"{c}: {ident!r} expected but not reported; cell={cells_by_id.get(trees.strip_plus(ident))}",
                              ident=ident, cell=cells_by_id.get(trees.strip_plus(ident)))
            for ident in sorted(ok - ek):
                res.violation(classify(c, ident, "spurious", cells_by_id), f"{c}: {ident!r} reported but not expected; cell={cells_by_id.get(trees.strip_plus(ident))}",
                              ident=ident, cell=cells_by_id.get(trees.strip_plus(ident)))
            if isinstance(e, dict) and ek == ok:
                for ident in ek:
                    if e[ident] != o[ident]:
                        res.violation(f"{c}-wrong-offenders", f"{c}[{ident}] lists {trees.jsonable(o[ident])}, expected {trees.jsonable(e[ident])}",
                                      ident=ident)
        for c in cells:
            if c[2] != "unused" or c[3] != "absent":
                res.sigs.add(short_hash(*c))
            res.cell(f"class:{c[1]}")
            res.cell(f"use:{c[2]}")
            res.cell(f"prov:{c[3]}")
            res.cell(f"carrier:{c[4]}")
            res.cell(f"cell:{c[1]}/{c[2]}/{c[3]}")
        if case["k"] == 0:
            res.sample = {"cells": cells[:12], "expected": trees.jsonable({k: (sorted(v) if not isinstance(v, dict) else {a: sorted(b) if isinstance(b, set) else b for a, b in list(v.items())[:5]}) for k, v in exp.items()})}
    finally:
        shutil.rmtree(top, ignore_errors=True)
    return res.out()
