"""C20 Copyright notices are built and merged without losing holders or years.

The generator knows (prefix, years, holder) of everything it feeds in.  Observed: the real
make_copyright_line / merge_copyright_lines / the tool's reader, and annotate [--merge-copyrights]
followed by lint --json.
"""

import json
import shutil

from .. import annot, trees
from ..models import notice
from ..monitors import Contracts, run_cli
from ..util import Res, rng_for, short_hash

ID = "C20"
LEVEL = "exploration"
RULE = ("build: holder grammar (names, organisations with punctuation, e-mail / URL suffixes, non-ASCII) x year form (none, YYYY, "
        "YYYY-YYYY, YYYY - YYYY) x the ten prefixes, complete product of the classes; verbatim: statements that already are "
        "notices; merge: sets of 1-8 notices mixing prefixes, years and 1-3 holders (also holders differing only in case); CLI: "
        "annotate [--merge-copyrights] with --year x0/x1/x2 then lint --json; non-trivial = holder with punctuation / non-ASCII or a "
        "set with >= 2 lines for one holder; distinct = distinct inputs")
ASSUMPTIONS = ["grey (own class, asserted only for 'no holder text lost'): holders that contain a notice-like token (Copyright, (C), "
               "the copyright sign) or start with four digits",
               "the prefix table is taken from the documentation (docs/man/reuse-annotate.rst)"]
MIN_NONTRIVIAL = {"quick": 5000, "thorough": 200000}

NAMES = ["Jane Doe", "John Smith", "Zoë Müller", "Rene\u0301 Mu\u0308ller", "\u212bngstro\u0308m Lab", "名前 太郎", "O'Neil", "J. R. R. Tolkien", "van der Berg", "Ægir Þórsson", "X Æ A-12"]
ORGS = ["Example Corp.", "ACME, Inc.", "Acme Inc", "Medical dnl", "SYSTEM REM", "Free Software Foundation Europe e.V.", "AT&T", "Foo-Bar GmbH & Co. KG", "The {project} Authors",
        "Team [core]", "3M Company", "Université de Montréal", "Initech (UK) Ltd", "a/b/c collective", "Déjà Vu S.à r.l.", "Yahoo!", "E*TRADE"]
SUFFIXES = ["", "", " <jane@example.com>", " <https://example.com>", " (https://example.org/team)", ", and contributors", " et al."]
YEAR_FORMS = [None, "2020", "1999-2024", "2001 - 2003", "1987"]
GREY_HOLDERS = ["Copyright Holders Inc", "The (C) Company", "© Records", "2020 Vision Ltd", "1984 Productions", "Not Copyright Jane",
                "Jane (c) Doe"]


def holders(rng, n):
    out = []
    for _ in range(n):
        base = rng.choice(NAMES + ORGS)
        if rng.random() < 0.3:
            base = rng.choice(NAMES) + " and " + rng.choice(NAMES)
        out.append(base + rng.choice(SUFFIXES))
    return out


def generate(tier, seed):
    cases = [{"kind": "build-product"}]
    nb, nm, nc = (40, 25, 40) if tier == "quick" else (8000, 6000, 1200)
    for k in range(nb):
        cases.append({"kind": "build", "k": k, "n": 500})
    for k in range(nm):
        cases.append({"kind": "merge", "k": k, "n": 200})
    for k in range(nc):
        cases.append({"kind": "cli", "k": k, "n": 30})
    return cases


FILE_KINDS = [(".py", "python"), (".py", "python"), (".c", "c"), (".html", "html"), (".f", "f"), (".f90", "f90"), (".bat", "bat"), (".m4", "m4"),
              (".tex", "tex"), (".ml", "ml"), (".hs", "haskell"), (".lisp", "lisp")]


def setup(ctx):
    ctx.state["styles"] = trees.style_table()
    import reuse.copyright as rc
    import reuse.extract as ex

    ctx.state["rc"] = rc
    ctx.state["ex"] = ex
    ctx.state["patterns"] = getattr(ex, "_COPYRIGHT_PATTERNS", None)


def read_groups(ctx, line):
    pats = ctx.state["patterns"]
    if not pats:
        return "skipped"
    for p in pats:
        m = p.search(line)
        if m:
            return m.groupdict()
    return None


def check_build(ctx, res, holder, year, key, grey=False):
    rc, ex = ctx.state["rc"], ctx.state["ex"]
    res.n += 1
    try:
        line = rc.make_copyright_line(holder, year=year, copyright_prefix=key)
    except Exception as e:  # noqa
        res.violation("build-raises", f"make_copyright_line({holder!r}, {year!r}, {key!r}) raised {type(e).__name__}")
        return
    want = notice.build(key, year, holder)
    if grey:
        if holder not in line:
            res.violation("grey-holder-text-lost", f"holder {holder!r} not contained in built line {line!r}")
        res.cell("grey-holder")
        return
    if line != want:
        res.violation("built-line-differs", f"built {line!r}, documented shape {want!r}", holder=holder, year=year, prefix=key)
        return
    info = ex.extract_reuse_info(line)
    if set(info.copyright_lines) != {line}:
        res.violation("built-line-not-read-back-as-one-notice", f"reader returns {sorted(info.copyright_lines)} for built line {line!r}",
                      holder=holder, year=year, prefix=key)
        return
    g = read_groups(ctx, line)
    if g == "skipped":
        ctx.count("reader_groups_skipped")
    elif g is None:
        res.violation("built-line-not-recognised", f"no reader pattern matches {line!r}")
    else:
        ctx.count("reader_groups_checked")
        gy = g.get("year")
        if (g.get("prefix"), gy, g.get("statement")) != (notice.PREFIXES[key], year, holder):
            res.violation("reader-groups-differ", f"reader sees prefix={g.get('prefix')!r} year={gy!r} holder={g.get('statement')!r} for "
                          f"({notice.PREFIXES[key]!r}, {year!r}, {holder!r})", line=line)
    if not holder.isascii() or any(c in holder for c in ",.&<>()[]{}!*/'"):
        res.sigs.add(short_hash("b", holder, year, key))


def check_verbatim(ctx, res, holder, year, key, rng):
    rc = ctx.state["rc"]
    statement = notice.build(key, year, holder)
    res.n += 1
    out = rc.make_copyright_line(statement, year=rng.choice([None, "2031"]), copyright_prefix=rng.choice(list(notice.PREFIXES)))
    if out != statement:
        res.violation("notice-not-kept-verbatim", f"statement {statement!r} that already is a notice became {out!r}")
    res.cell("verbatim")


OTHER_NOTICE_SHAPES = ["SPDX-SnippetCopyrightText: {y}{h}", "SPDX-SnippetCopyrightText: (C) {y}{h}", "SPDX-SnippetCopyrightText: © {y}{h}",
                       "SPDX-SnippetCopyrightText: Copyright {y}{h}", "Copyright (c) {y}{h}", "Copyright\t{y}{h}", "copyright {y}{h}", "(C) {y}{h}",
                       "(c) {y}{h}", "SPDX-FileCopyrightText:\t{y}{h}", "SPDX-FileCopyrightText: (c) {y}{h}"]


def check_verbatim_other(ctx, res, holder, year, rng):
    """Whatever the tool's own reader takes for one whole notice is a notice: kept as it is, not wrapped a second time."""
    rc, ex = ctx.state["rc"], ctx.state["ex"]
    statement = rng.choice(OTHER_NOTICE_SHAPES).format(y=(year + " ") if year else "", h=holder)
    try:
        is_notice = set(ex.extract_reuse_info(statement).copyright_lines) == {statement}
    except Exception:  # noqa
        is_notice = False
    if not is_notice:
        res.cell("other-shape-not-a-notice")
        return
    res.n += 1
    out = rc.make_copyright_line(statement, year=rng.choice([None, "2031"]), copyright_prefix=rng.choice(list(notice.PREFIXES)))
    if out != statement:
        res.violation("notice-not-kept-verbatim", f"statement {statement!r}, which the reader takes for a notice, became {out!r}")
    res.cell("verbatim-other-shape:" + statement.split(holder)[0].split(year or "\0")[0].strip()[:34])


def check_merge(ctx, res, lines_spec):
    """lines_spec: list of (prefix key, year form, holder)."""
    rc = ctx.state["rc"]
    lines = {notice.build(k, y, h) for k, y, h in lines_spec}
    res.n += 1
    try:
        out = rc.merge_copyright_lines(set(lines))
    except Exception as e:  # noqa
        res.violation("merge-raises", f"merge_copyright_lines raised {type(e).__name__}: {e}", lines=sorted(lines))
        return
    judge_merge(res, lines_spec, out, sorted(lines))
    by_holder = {}
    for k, y, h in lines_spec:
        by_holder.setdefault(h, 0)
        by_holder[h] += 1
    if max(by_holder.values()) >= 2:
        res.sigs.add(short_hash("m", sorted(lines)))


def judge_merge(res, lines_spec, out, lines, label="merge"):
    want_years = {}
    for k, y, h in lines_spec:
        ys = want_years.setdefault(h, [])
        if y:
            d = notice.decompose(notice.build(k, y, h))
            ys += d[1]
    got = {}
    for line in out:
        d = notice.decompose(line)
        if d is None:
            res.violation(f"{label}-output-not-a-notice", f"merged line {line!r} does not start with a documented prefix", lines=lines)
            return
        got.setdefault(d[2], []).append(d)
    for h, ys in want_years.items():
        if h not in got:
            res.violation(f"{label}-holder-lost", f"holder {h!r} absent after merging {lines}: {sorted(out)}", lines=lines)
            continue
        if len(got[h]) != 1:
            res.violation(f"{label}-holder-on-several-lines", f"holder {h!r} on {len(got[h])} lines after merging: {sorted(out)}", lines=lines)
            continue
        gy = got[h][0][1]
        if ys:
            if not gy or min(gy) != min(ys) or max(gy) != max(ys):
                res.violation(f"{label}-year-range", f"holder {h!r}: years {gy} after merge, stated before {sorted(set(ys))}", lines=lines, out=sorted(out))
        elif gy:
            res.violation(f"{label}-year-invented", f"holder {h!r}: years {gy} after merge though none was stated", lines=lines)
    for h in got:
        if h not in want_years:
            res.violation(f"{label}-holder-invented", f"holder {h!r} appears after merging {lines}", out=sorted(out))


def run_case(case, ctx):
    res = Res()
    kind = case["kind"]
    if kind == "build-product":
        rng = rng_for(ctx.seed, "c20prod")
        for h in NAMES + ORGS:
            for sfx in SUFFIXES[1:]:
                for y in YEAR_FORMS:
                    for key in notice.PREFIXES:
                        holder = h + sfx
                        check_build(ctx, res, holder, y, key, grey=holder[:4].isdigit())
                        res.cell("prefix:" + key)
                        res.cell("year:" + str(y))
        for h in GREY_HOLDERS:
            for key in notice.PREFIXES:
                check_build(ctx, res, h, "2020", key, grey=True)
        res.sample = {"holder": ORGS[1] + SUFFIXES[2], "year": "2001 - 2003", "prefix": "string-c",
                      "built": notice.build("string-c", "2001 - 2003", ORGS[1] + SUFFIXES[2])}
    elif kind == "build":
        rng = rng_for(ctx.seed, "c20b", case["k"])
        for _ in range(case["n"]):
            h = holders(rng, 1)[0]
            y, key = rng.choice(YEAR_FORMS), rng.choice(list(notice.PREFIXES))
            if rng.random() < 0.2:
                y = str(rng.randint(1970, 2030))
            check_build(ctx, res, h, y, key)
            if rng.random() < 0.3:
                check_verbatim(ctx, res, h, y, key, rng)
            if rng.random() < 0.2:
                check_verbatim_other(ctx, res, h, y, rng)
    elif kind == "merge":
        rng = rng_for(ctx.seed, "c20m", case["k"])
        for _ in range(case["n"]):
            hs = holders(rng, rng.randint(1, 3))
            if rng.random() < 0.15:
                hs.append(hs[0].upper() if hs[0].upper() != hs[0] else hs[0].lower())
            spec = []
            for _j in range(rng.randint(1, 8)):
                y = rng.choice([None, None, str(rng.randint(1980, 2030)), f"{rng.randint(1980, 1999)}-{rng.randint(2000, 2030)}",
                                f"{rng.randint(1980, 1999)} - {rng.randint(2000, 2030)}"])
                spec.append((rng.choice(list(notice.PREFIXES)), y, rng.choice(hs)))
            check_merge(ctx, res, spec)
            res.cell(f"merge-lines:{len(spec)}")
    else:
        run_cli_case(case, ctx, res)
    return res.out()


def run_cli_case(case, ctx, res):
    rng = rng_for(ctx.seed, "c20c", case["k"])
    root = ctx.scratch / f"c20-{case['k']}"
    root.mkdir()
    con = Contracts()

    def cond_merge(kw):
        out = kw["result"]
        spec = []
        for line in kw["copyright_lines"]:
            d = notice.decompose(line)
            if d is None:
                return []
            spec.append(d)
        if any(("Copyright" in d[2]) or ("©" in d[2]) or ("(C)" in d[2].upper()) or d[2][:4].isdigit() for d in spec):
            return []
        r = Res()
        # re-express the input through the model and judge the output with the same oracle
        keyof = {v: k for k, v in notice.PREFIXES.items()}
        ls = [(keyof.get(p, "spdx"), notice.year_text(ys) if ys else None, h) for p, ys, h in spec]
        judge_merge(r, ls, out, sorted(kw["copyright_lines"]), label="in-situ-merge")
        return r.viol

    attached = con.attach("reuse.copyright", "merge_copyright_lines", cond_merge)
    try:
        # one invocation over several files: what one file's header says is that file's, whichever is taken first
        pd = root / "pair"
        pd.mkdir()
        stated = {"a.py": "Alice Example", "b.py": "Bob Example", "c.py": None, "d.py": "Dora Example"}
        for nme, who in stated.items():
            (pd / nme).write_text((f"# SPDX-FileCopyrightText: 20{ord(nme[0]) % 20:02d} {who}\n\n" if who else "") + f"print('{nme}')\n")
        margs = ["--merge-copyrights"] if rng.random() < 0.6 else []
        rp = run_cli(["--no-multiprocessing", "--root", str(root), "annotate", "-c", "Carol Example", "--year", "2020"] + margs +
                     [str(pd / n) for n in rng.sample(sorted(stated), 4)], cwd=str(root))
        res.n += 1
        res.cell("cli-several-files-in-one-run")
        if rp.escaped or rp.exit_code != 0:
            res.violation("annotate-failed", f"annotate over four files exit {rp.exit_code} {rp.exc_type}", **rp.brief())
        else:
            for nme, who in stated.items():
                text = (pd / nme).read_text()
                foreign = [w for w in stated.values() if w and w != who and w in text]
                if foreign or "Carol Example" not in text or (who and who not in text):
                    res.violation("cli-notices-leak-between-files-of-one-run", f"{nme} (stated: {who}) after one run over four files names {foreign} "
                                  f"as well: {text[:300]!r}")
                    break
        shutil.rmtree(pd, ignore_errors=True)
        for j in range(case["n"]):
            res.n += 1
            # the comment style is part of how a notice is written down and read again: letters as markers (c, REM, dnl), '!', '%'
            ext, short = rng.choice(FILE_KINDS)
            f = root / f"d{j}" / f"f{j}{ext}"
            f.parent.mkdir()
            stl = ctx.state["styles"][short]
            sidecar = False
            hs = holders(rng, rng.randint(1, 2))
            tails = {"f": ["Acme Inc", "Joan of Arc"], "f90": ["Yahoo!", "Wham!"], "bat": ["SYSTEM REM"], "m4": ["Medical dnl", "Mary Holland"],
                     "tex": ["Fifty %"], "lisp": ["Semi ;;;", "Semi ;"], "haskell": ["Dash --"], "python": ["Hash #", "Csharp C#"]}
            if short in tails and rng.random() < 0.5:
                # a holder whose last characters are the ones the file's comment marker is made of
                hs[0] = rng.choice(tails[short])
            with_licence = rng.random() < 0.7
            merge = rng.random() < 0.6
            steps = rng.randint(1, 4) if merge else 1
            # a history: plain runs (and a header written by hand) pile up lines, the last run merges them
            plan = [rng.random() < 0.6 for _ in range(steps - 1)] + [True] if merge else [False]
            pool = [str(rng.randint(1990, 2030)) for _ in range(3)]
            stated = {}
            body = "print('x')\n"
            if merge and rng.random() < 0.35:
                pre = []
                for h in hs:
                    for _p in range(rng.randint(1, 2)):
                        y = rng.choice([None, rng.choice(pool), f"{rng.randint(1980, 1989)}-{rng.choice(pool)}", f"1985 - {rng.choice(pool)}"])
                        line = notice.build(rng.choice(list(notice.PREFIXES)), y, h)
                        pre.append(line)
                        stated.setdefault(h, []).extend(notice.decompose(line)[1] or [])
                if rng.random() < 0.3:
                    # the earlier notices live in a FILE.license sidecar and the file is reached by walking its directory (-r)
                    sidecar = True
                    (f.parent / (f.name + ".license")).write_text("\n".join(pre + (["", "SPDX-License-Identifier: MIT"] if with_licence else [])) + "\n")
                    res.cell("cli-sidecar-recursive")
                else:
                    blk = trees.comment_block(stl, pre + (["", "SPDX-License-Identifier: MIT"] if with_licence else []))
                    mk = stl["single"]
                    if mk and not mk[-1].isalnum() and all(ln.startswith(mk) for ln in blk.split("\n")) and rng.random() < 0.35:
                        # typed without a blank behind the comment marker (#SPDX-...): a header like any other
                        blk = "\n".join(mk + ln[len(mk):].lstrip(" ") for ln in blk.split("\n"))
                        res.cell("cli-handwritten-start:no-blank-after-marker")
                    body = blk + "\n\n" + body
                res.cell("cli-handwritten-start")
            f.write_text(body)
            template = rng.choice(["custom", "nocontrib"] + (["commented"] if short == "python" else [])) if rng.random() < 0.3 else None
            if template:
                annot.install_templates(root, [template])
                res.cell("cli-template:" + template)
            ok = True
            last_key = None
            for s in range(steps):
                key = rng.choice(list(notice.PREFIXES))
                nyears = rng.choice([0, 1, 1, 2])
                # in any order: the range is min - max; drawn from a small pool so that a request repeats what the header has
                years = [rng.choice(pool) if rng.random() < 0.6 else str(rng.randint(1990, 2030)) for _ in range(nyears)]
                if nyears == 2 and rng.random() < 0.15:
                    years.append(str(rng.randint(1990, 2030)))
                if s and rng.random() < 0.3:
                    key = last_key
                args = ["--no-multiprocessing", "--root", str(root), "annotate", "--copyright-prefix", key] + (["-l", "MIT"] if with_licence else [])
                if template:
                    args += ["--template", annot.template_arg(template)]
                for h in hs:
                    args += ["-c", h]
                if nyears == 0:
                    args.append("--exclude-year")
                for y in years:
                    args += ["--year", y]
                if plan[s]:
                    args.append("--merge-copyrights")
                args += ["-r", str(f.parent)] if sidecar else [str(f)]
                if sidecar and s == 0 and rng.random() < 0.3:
                    # the sidecar cannot be read this once (I/O error): the run fails and the notices in it stay where they are
                    from ..monitors import FS

                    FS.install()
                    side = str(f.parent / (f.name + ".license"))
                    was = open(side, "rb").read()
                    nth = {"n": 0, "at": rng.choice([1, 2, 2, 3])}   # which read of the sidecar fails: the sniffing, the text read, ...

                    def eio(p, nth=nth):
                        nth["n"] += 1
                        return OSError(5, "Input/output error (injected)", p) if nth["n"] == nth["at"] else None

                    FS.fail_open = {side: eio}
                    FS.begin()
                    try:
                        rf = run_cli(args, cwd=str(root))
                    finally:
                        FS.end()
                        FS.fail_open = {}
                    fired = nth["n"] >= nth["at"]
                    res.cell("cli-sidecar-read-fault:" + ("fired" if fired else "not-reached"))
                    if not fired:
                        r = rf   # no read was failed: this was the step itself
                    elif open(side, "rb").read() != was:
                        res.violation("sidecar-overwritten-after-read-error", f"FILE.license could not be read (injected EIO), annotate exit {rf.exit_code}, and "
                                      f"its earlier notices are gone", before=was.decode()[:300], after=open(side).read()[:300])
                        ok = False
                        break
                    else:
                        r = run_cli(args, cwd=str(root))
                else:
                    r = run_cli(args, cwd=str(root))
                if r.escaped or r.exit_code != 0:
                    res.violation("annotate-failed", f"annotate exit {r.exit_code} {r.exc_type} for holders {hs}", args=args[4:], **r.brief())
                    ok = False
                    break
                for h in hs:
                    stated.setdefault(h, []).extend([min(years), max(years)] if years else [])
                last_key = key
                # several --year options give "min - max"; one distinct value gives that year
                yt = None if not years else (years[0] if len(set(years)) == 1 else f"{min(years)} - {max(years)}")
                last_lines = {notice.build(key, yt, h) for h in hs}
            if not ok:
                continue
            rl = run_cli(["--no-multiprocessing", "--root", str(root), "lint-file", str(f)], cwd=str(root))
            rj = run_cli(["--no-multiprocessing", "--root", str(root), "lint", "--json"], cwd=str(root))
            try:
                data = json.loads(rj.stdout)
            except ValueError:
                res.violation("lint-gives-no-report", f"lint --json exit {rj.exit_code} without a report", **rj.brief())
                continue
            fe = next((x for x in data["files"] if x["path"] == f"d{j}/{f.name}"), None)
            got = {c["value"] for c in fe["copyrights"]} if fe else set()
            if steps == 1 and body == "print('x')\n" and not sidecar:
                if got != last_lines:
                    res.violation("cli-round-trip", f"annotate wrote / lint reads {sorted(got)}; requested {sorted(last_lines)}", args=args[4:])
            else:
                spec = [("spdx", notice.year_text(ys) if ys else None, h) for h, ys in stated.items()]
                judge_merge(res, spec, got, sorted(got), label="cli-merge")
            res.sigs.add(short_hash("c", hs, steps, merge, last_key, case["k"], j))
            res.cell("cli-merge" if merge else "cli-plain")
            if merge:
                res.cell("cli-history:" + "".join("m" if x else "p" for x in plan))
        ctx.count("contract_evals_merge", con.evals.get("reuse.copyright.merge_copyright_lines", 0))
        if not attached:
            ctx.count("contract_skipped")
        for v in con.drain():
            res.violation(v["key"], v["what"], **(v.get("detail") or {}))
    finally:
        con.detach()
        shutil.rmtree(root, ignore_errors=True)
