"""C03 Exactly the covered files are examined.

Oracle: a name+kind model of "covered file" written from the statement; for Git the ignore verdict
is Git's own (`git check-ignore`).  Observed: the examined sets of lint --json, spdx,
lint-file <everything> and annotate -r.
"""

import json
import os
import re
import shutil

from .. import trees
from ..models import spdx_tv as tv
from ..monitors import run_cli, snapshot
from ..util import Res, rng_for, short_hash

ID = "C03"
LEVEL = "exploration"
RULE = ("trees with names from both sides of every exclusion rule at depth 0-3 as file / empty file / directory / symlink (to file, "
        "to directory, dangling, outside), directories with file-rule names and files with directory-rule names; without VCS and in "
        "Git repositories with generated .gitignore files x tracking states (tracked, forced-tracked-but-matching, untracked, ignored, "
        "ignored inside untracked directories), submodules (real and manual .gitmodules), subprojects/, x the four option "
        "combinations; examined sets of lint, spdx, lint-file and annotate -r compared with the model; non-trivial = tree with >= 4 "
        "excluded and >= 4 covered nodes; distinct = distinct trees x options")
ASSUMPTIONS = ["Git's own check-ignore is the oracle for VCS exclusion (tracked files are never ignored)",
               "grey (generated, executed, not asserted): files inside directories named LICENSES/.reuse below the root level, "
               "subprojects/<x>/ below the root level; not generated: .hgtags, CAL-1.0*, SHL-2.1*, a *file* named .git",
               "Mercurial / Jujutsu / Pijul are not installed and are not explored"]
MIN_NONTRIVIAL = {"quick": 60, "thorough": 2500}
BATCHES_PER_JOB = 3

FILE_NAMES = ["LICENSE", "LICENSE-MIT", "LICENSE.txt", "LICENSEX", "LICENCE.md", "LICENCE", "LICENS", "LICENSE_MIT", "license", "XLICENSE",
              "COPYING", "COPYING.LESSER", "COPYINGX", "COPYING-x", "copying", "x.license", "y.py.license", "x.licensee", "license.txt",
              "a.spdx", "a.spdx.json", "a.spdx.yml", "a.spdx.yaml", "a.spdx.rdf", "a.spdx.xml", "a.spdxx", "a.spdx.txt", "a.spdxXjson",
              "a.spdx-json", "spdx", "b.spdx.jsonx", "REUSE.toml", "reuse.toml", "REUSE.toml.bak", "XREUSE.toml", "main.py", "util.c",
              "README.md", "data.o", "build.log", "notes.tmp", "x.py", "LICENSES", ".reuse", ".hg", ".sl", "subprojects", "Makefile"]
DIR_NAMES = ["src", "docs", "lib", "sub dir", "LICENSES", ".reuse", ".hg", ".sl", "subprojects", "LICENSE", "COPYING.d", "x.license", "a.spdx",
             "build", "tmp", "REUSE.toml.d", "vendor"]
META_DIRS = {".git", ".hg", ".sl"}
ROOT_ONLY_DIRS = {"LICENSES", ".reuse"}
SPDX_EXT = (".spdx", ".spdx.rdf", ".spdx.json", ".spdx.xml", ".spdx.yml", ".spdx.yaml")


def name_excluded(name):
    if re.fullmatch(r"LICEN[CS]E([-.].*)?", name) or re.fullmatch(r"COPYING([-.].*)?", name):
        return "licence-file-name"
    if name.endswith(".license"):
        return "dot-license"
    if name.endswith(SPDX_EXT):
        return "spdx-document"
    if name == "REUSE.toml":
        return "REUSE.toml"
    return None


def gen_tree(rng, git):
    """-> list of nodes {path, kind: file|empty|dir|symlink, target?}"""
    nodes = []
    used = set()

    def add_dir(prefix, depth):
        n_entries = rng.randint(3, 7) if depth == 0 else rng.randint(1, 4)
        for _ in range(n_entries):
            r = rng.random()
            if r < 0.55:
                name = rng.choice(FILE_NAMES)
                p = prefix + name
                if p in used:
                    continue
                used.add(p)
                kind = "empty" if rng.random() < 0.1 else "file"
                nodes.append({"path": p, "kind": kind})
            elif r < 0.85 and depth < 3:
                name = rng.choice(DIR_NAMES + ([".git"] if not git else []))
                p = prefix + name
                if p in used:
                    continue
                used.add(p)
                nodes.append({"path": p, "kind": "dir"})
                add_dir(p + "/", depth + 1)
            else:
                name = "link" + str(rng.randint(0, 99))
                p = prefix + name
                if p in used:
                    continue
                used.add(p)
                nodes.append({"path": p, "kind": "symlink", "target": rng.choice(["file", "dir", "dangling", "outside", "outside-dir"])})

    add_dir("", 0)
    # always: a few certain members of each class at the root
    for name in ("main.py", "LICENSE", "z.license", "doc.spdx.json", "REUSE.toml"):
        if name not in used:
            used.add(name)
            nodes.append({"path": name, "kind": "file"})
    return nodes


def materialise(nodes, root, outside):
    root.mkdir(parents=True)
    outside.mkdir(parents=True, exist_ok=True)
    (outside / "o.py").write_text("outside file\n")
    (outside / "odir").mkdir(exist_ok=True)
    (outside / "odir" / "inner.py").write_text("outside inner\n")
    files = [n["path"] for n in nodes if n["kind"] == "file"]
    dirs = [n["path"] for n in nodes if n["kind"] == "dir"]
    lic_stems = set()
    for n in nodes:
        p = root / n["path"]
        if n["kind"] == "dir":
            p.mkdir(parents=True, exist_ok=True)
        elif n["kind"] in ("file", "empty"):
            p.parent.mkdir(parents=True, exist_ok=True)
            name = os.path.basename(n["path"])
            if n["kind"] == "empty":
                p.write_text("")
            elif name == "REUSE.toml":
                p.write_text("version = 1\n")
            else:
                p.write_text(f"plain content of {name}\n")
    for n in nodes:
        if n["kind"] != "symlink":
            continue
        p = root / n["path"]
        p.parent.mkdir(parents=True, exist_ok=True)
        t = n["target"]
        if t == "file" and files:
            target = os.path.relpath(root / files[0], p.parent)
        elif t == "dir" and dirs:
            target = os.path.relpath(root / dirs[0], p.parent)
        elif t == "outside":
            target = str(outside / "o.py")
        elif t == "outside-dir":
            target = str(outside / "odir")
        else:
            target = "does-not-exist"
        os.symlink(target, p)
    # LICENSES/ at the root must not hold two files with one stem (that is a configuration error, C16)
    lic = root / "LICENSES"
    if lic.is_dir():
        from pathlib import PurePath

        for dp, dn, fn in os.walk(lic):
            for f in list(dn) + list(fn):
                full = os.path.join(dp, f)
                if os.path.islink(full):
                    os.unlink(full)  # glob('LICENSES/**') follows links: keep the licence directory free of them
                    continue
                if f in dn or f.endswith(".license"):
                    continue
                stem = PurePath(f).stem
                if stem in lic_stems:
                    os.unlink(full)
                else:
                    lic_stems.add(stem)


def model(nodes, root, ignored, submods, opts):
    """-> (covered set, grey set, reasons)"""
    covered, grey = set(), set()
    reasons = {}
    for dp, dn, fn in os.walk(root, followlinks=False):
        for f in fn:
            full = os.path.join(dp, f)
            rel = os.path.relpath(full, root)
            parts = rel.split("/")
            why = None
            st = os.lstat(full)
            import stat as st_

            if st_.S_ISLNK(st.st_mode):
                why = "symlink"
            elif not st_.S_ISREG(st.st_mode):
                why = "not-regular"
            elif st.st_size == 0:
                why = "empty"
            dparts = parts[:-1]
            if why is None and any(d in META_DIRS for d in dparts):
                why = "vcs-metadata-dir"
            if why is None and dparts and dparts[0] in ROOT_ONLY_DIRS:
                why = "in-" + dparts[0]
            if why is None:
                why = name_excluded(f)
            if why is None and rel in ignored:
                why = "vcs-ignored"
            if why is None and not opts["submodules"] and any(rel == s or rel.startswith(s + "/") for s in submods):
                why = "submodule"
            if why is None and not opts["meson"] and len(dparts) >= 2 and dparts[0] == "subprojects":
                why = "meson-subproject"
            # symlinked directories are never entered by os.walk(followlinks=False): nothing to do
            is_grey = False
            if why is None or why in ("vcs-ignored",):
                if any(d in ROOT_ONLY_DIRS for d in dparts[1:]):
                    is_grey = True  # nested LICENSES/.reuse
                for i in range(1, len(dparts) - 1):
                    if dparts[i] == "subprojects" and not opts["meson"]:
                        is_grey = True  # subprojects/<x>/ below the root level
                # inside a submodule that is included: its own ignore rules are the submodule's business
                if opts["submodules"] and any(rel.startswith(s + "/") for s in submods):
                    is_grey = True
            if f == ".git" and why is None:
                is_grey = True  # a .git *file* is VCS metadata too; the statement only names directories
            if is_grey:
                grey.add(rel)
            elif why is None:
                covered.add(rel)
            reasons[rel] = "grey" if is_grey else (why or "covered")
    return covered, grey, reasons


GITIGNORE_PATTERNS = ["*.o", "*.log", "*.tmp", "build/", "tmp/", "/notes.tmp", "**/vendor", "!keep.o", "docs/*.md", "*.py[cod]", "/lib/",
                      "sub dir/", "x.py", "!main.py", "LICENSE*", "*.spdx"]


def setup_git(rng, root, nodes, force_sub=False):
    """Initialise a repository with .gitignore files and mixed tracking states. Returns submodule paths."""
    trees.git(root, "init", "-q")
    pats = rng.sample(GITIGNORE_PATTERNS, rng.randint(1, 5))
    # certain members of every tracking class
    if rng.random() < 0.8:
        pats += [p for p in ("*.o", "build/") if p not in pats]
        for rel, text in (("objs/data.o", "o\n"), ("objs/keep.c", "c\n"), ("objs/deep/er.o", "o\n"), ("objs/deep/er.c", "c\n"),
                          ("build/out.bin", "b\n"), ("build/sub/x.c", "c\n"), ("trk/t.o", "o\n"), ("trk/t.c", "c\n"),
                          ("trk/forced.o", "o\n"), ("onlyign/a.o", "o\n")):
            fp = root / rel
            if not os.path.lexists(fp.parent) or fp.parent.is_dir():
                try:
                    fp.parent.mkdir(parents=True, exist_ok=True)
                    fp.write_text(text)
                except OSError:
                    pass
    if "build/" in pats and (root / "build").is_dir() and not (root / "build").is_symlink() and rng.random() < 0.6:
        # somebody else's repository cloned into an ignored build directory (a dependency fetched by the build system): Git
        # lists it as one directory entry and never looks inside
        dep = root / "build" / "_deps" / "fmt-src"
        dep.mkdir(parents=True, exist_ok=True)
        trees.git(dep, "init", "-q")
        (dep / "fmt.py").write_text("fmt = 1\n")
        trees.git(dep, "add", ".", check=False)
        trees.git(dep, "commit", "-q", "-m", "dep", check=False)
    (root / ".gitignore").write_text("\n".join(pats) + "\n")
    dirs = [n["path"] for n in nodes if n["kind"] == "dir" and not any(part in (".hg", ".sl") for part in n["path"].split("/"))]
    if dirs and rng.random() < 0.5:
        d = rng.choice(dirs)
        (root / d / ".gitignore").write_text("\n".join(rng.sample(GITIGNORE_PATTERNS, 2)) + "\n")
    files = [n["path"] for n in nodes if n["kind"] in ("file", "empty")]
    rng.shuffle(files)
    k = len(files)
    tracked = files[: k // 3]
    forced = files[k // 3: k // 3 + max(1, k // 8)]
    for f in tracked:
        trees.git(root, "add", "--", f, check=False)
    for f in forced:
        trees.git(root, "add", "-f", "--", f, check=False)
    trees.git(root, "add", ".gitignore", check=False)
    trees.git(root, "add", "--", "trk/t.c", check=False)
    trees.git(root, "add", "-f", "--", "trk/forced.o", check=False)
    trees.git(root, "commit", "-q", "-m", "init", "--allow-empty", check=False)
    submods = []
    mode = rng.choice(["none", "none", "real", "manual"])
    if force_sub:
        mode = "real"   # a share of the Git trees always has a submodule below subprojects/ (the two exclusions are independent)
    if mode == "real":
        src = root.parent / (root.name + "-subsrc")
        src.mkdir()
        trees.git(src, "init", "-q")
        (src / "in_sub.py").write_text("submodule file\n")
        (src / "LICENSE").write_text("x\n")
        trees.git(src, "add", ".")
        trees.git(src, "commit", "-q", "-m", "sub")
        # a submodule may well live below subprojects/ (Meson wrap-git): the two exclusions are independent
        where = rng.choice(["ext/mod", "subprojects/libsub", "subprojects/libsub", "third party/lib", "third party/lib"])
        if force_sub:
            where = "subprojects/libsub"
        if os.path.lexists(root / where.split("/")[0]) and not (root / where.split("/")[0]).is_dir():
            where = "ext2/mod"
        r = trees.git(root, "submodule", "add", "-q", str(src), where, check=False)
        if r.returncode == 0:
            submods.append(where)
            trees.git(root, "commit", "-q", "-m", "add submodule", check=False)
        shutil.rmtree(src, ignore_errors=True)
    if rng.random() < 0.5 and (not os.path.lexists(root / "subprojects") or (root / "subprojects").is_dir()):
        # an ignored checkout below subprojects/ (wrap-git clone) and a plain subproject next to it
        try:
            (root / "subprojects" / "libwrap").mkdir(parents=True, exist_ok=True)
            (root / "subprojects" / "libwrap" / "wrap.c").write_text("w\n")
            (root / "subprojects" / "plainsub").mkdir(parents=True, exist_ok=True)
            (root / "subprojects" / "plainsub" / "p.c").write_text("p\n")
            with open(root / ".gitignore", "a") as fp:
                fp.write("subprojects/libwrap/\n")
        except OSError:
            pass
    if rng.random() < 0.3 and not os.path.lexists(root / "sepgit"):
        # a directory that has a .git *file* (a clone with --separate-git-dir, a linked work tree) and is nobody's submodule:
        # its files are the project's like any others
        r = trees.git(root, "init", "-q", "--separate-git-dir", str(root.parent / (root.name + "-sepgitdir")), "sepgit", check=False)
        if r.returncode == 0 and (root / "sepgit" / ".git").is_file():
            (root / "sepgit" / "inner.py").write_text("not a submodule\n")
            (root / "sepgit" / "deep").mkdir()
            (root / "sepgit" / "deep" / "er.c").write_text("int x;\n")
    if mode == "manual":
        (root / "manualsub").mkdir(exist_ok=True)
        (root / "manualsub" / "m.py").write_text("manual submodule file\n")
        (root / "manualsub" / "deep").mkdir(exist_ok=True)
        (root / "manualsub" / "deep" / "n.py").write_text("x\n")
        (root / ".gitmodules").write_text('[submodule "manualsub"]\n\tpath = manualsub\n\turl = https://example.com/x.git\n')
        submods.append("manualsub")
        if rng.random() < 0.5:
            (root / "my sub").mkdir(exist_ok=True)
            (root / "my sub" / "s.py").write_text("x\n")
            with open(root / ".gitmodules", "a") as fp:
                fp.write('[submodule "my sub"]\n\tpath = my sub\n\turl = https://example.com/y.git\n')
            submods.append("my sub")
    return submods


def git_ignored(root, submods=()):
    """Git's own verdict for every file of the work tree (paths inside submodules are not Git's to judge)."""
    rels = []
    for dp, dn, fn in os.walk(root, followlinks=False):
        if ".git" in dp.split(os.sep):
            continue
        for f in fn:
            rel = os.path.relpath(os.path.join(dp, f), root)
            if not any(rel.startswith(s + "/") for s in submods):
                rels.append(rel)
    if not rels:
        return set()
    envv = dict(os.environ)
    envv.update(trees.GIT_ENV)
    import subprocess

    p = subprocess.run(["git", "-c", "core.quotepath=off", "check-ignore", "--stdin", "-z"], cwd=str(root), env=envv,
                       input=("\0".join(rels) + "\0").encode(), stdout=subprocess.PIPE, stderr=subprocess.PIPE)
    if p.returncode not in (0, 1):
        raise RuntimeError("git check-ignore failed: " + p.stderr.decode()[-300:])
    return {x for x in p.stdout.decode().split("\0") if x}


def generate(tier, seed):
    n_plain, n_git = (200, 90) if tier == "quick" else (12000, 3000)
    cases = [{"k": k, "git": False} for k in range(n_plain)] + [{"k": n_plain + k, "git": True} for k in range(n_git)]
    return cases


def classify(rel, direction, reasons):
    why = reasons.get(rel, "?")
    name = os.path.basename(rel)
    if direction == "skipped" and re.search(r"\.spdx.(rdf|json|xml|ya?ml)$", name) and not name.endswith(SPDX_EXT):
        return "spdx-name-regex-unescaped-dot"
    if direction == "examined-though-excluded" and why == "vcs-ignored":
        return "git-ignored-file-inside-untracked-directory" if "/" in rel else "git-ignored-file-examined"
    return f"{direction}:{why}"


def run_case(case, ctx):
    res = Res()
    k = case["k"]
    rng = rng_for(ctx.seed, "c03", k)
    nodes = gen_tree(rng, case["git"])
    root = ctx.scratch / f"c03-{k}" / "proj"
    outside = ctx.scratch / f"c03-{k}" / "outside"
    try:
        materialise(nodes, root, outside)
        if case["git"]:
            # the user's personal ignore file (outside the repository) counts as well: Git's verdict is the oracle, and the
            # tool's Git sees the same environment
            xdg = root.parent / "xdg"
            (xdg / "git").mkdir(parents=True)
            (xdg / "git" / "ignore").write_text("*.scratch\n.idea/\n")
            os.environ["XDG_CONFIG_HOME"] = str(xdg)
            (root / "notes.scratch").write_text("personal notes\n")
            (root / ".idea").mkdir(exist_ok=True)
            (root / ".idea" / "workspace.xml").write_text("<x/>\n")
            res.cell("personal-ignore-file")
        force_sub = bool(case["git"]) and case["k"] % 4 == 0
        submods = setup_git(rng, root, nodes, force_sub) if case["git"] else []
        outer = False
        if not case["git"] and k % 4 == 1:
            # the project is a sub-directory of a larger Git work tree: ignore rules live above it, Git speaks in paths of its own
            outer = True
            trees.git(root.parent, "init", "-q")
            (root.parent / ".gitignore").write_text("*.o\nbuild/\n*.gen.*\n")
            for rel, text in (("build/out.txt", "b\n"), ("obj/main.o", "o\n"), ("obj/keep.c", "c\n"), ("x.gen.py", "g\n")):
                fp = root / rel
                if not os.path.lexists(fp.parent) or (fp.parent.is_dir() and not fp.parent.is_symlink()):
                    try:
                        fp.parent.mkdir(parents=True, exist_ok=True)
                        if not os.path.lexists(fp):
                            fp.write_text(text)
                    except OSError:
                        pass
            trees.git(root.parent, "add", "-A", check=False)
            trees.git(root.parent, "commit", "-q", "-m", "init", check=False)
            res.cell("vcs:work-tree-above-the-project")
        if not os.path.lexists(root / "subprojects") and rng.random() < 0.3:
            (root / "subprojects" / "libfoo").mkdir(parents=True)
            (root / "subprojects" / "libfoo" / "foo.c").write_text("x\n")
            (root / "subprojects" / "foo.wrap").write_text("[wrap]\n")
        ignored = git_ignored(root, submods) if (case["git"] or outer) else set()
        opts = {"submodules": rng.random() < 0.4, "meson": rng.random() < 0.4}
        if force_sub:
            # ... and is linted with exactly one of the two options
            opts = {"submodules": case["k"] % 8 == 0, "meson": case["k"] % 8 != 0}
        covered, grey, reasons = model(nodes, str(root), ignored, submods, opts)
        gopts = ["--no-multiprocessing", "--root", str(root)]
        if opts["submodules"]:
            gopts.append("--include-submodules")
        if opts["meson"]:
            gopts.append("--include-meson-subprojects")

        def judge(examined, label):
            res.n += 1
            for rel in sorted((examined - covered) - grey):
                res.violation(classify(rel, "examined-though-excluded", reasons), f"{label}: {rel!r} examined but the model excludes it ({reasons.get(rel)})",
                              rel=rel, opts=opts, git=case["git"], label=label)
            for rel in sorted(covered - examined):
                res.violation(classify(rel, "skipped", reasons), f"{label}: covered file {rel!r} was not examined", rel=rel, opts=opts,
                              git=case["git"], label=label)

        # (a) lint --json
        r = run_cli(gopts + ["lint", "--json"], cwd=str(root))
        if r.escaped:
            res.violation("escaped-exception", f"lint: {r.exc_type}", tb=r.exc_tb)
            return res.out()
        try:
            data = json.loads(r.stdout)
        except ValueError:
            res.violation("lint-json-unparseable", "no JSON", **r.brief())
            return res.out()
        obs = trees.lint_observed(data, root)["covered"]
        judge(obs, "lint")
        # (b) spdx
        r = run_cli(gopts + ["spdx"], cwd=str(root))
        if r.escaped or r.exit_code != 0:
            res.violation("spdx-failed", f"spdx exit {r.exit_code} {r.exc_type}", tb=r.exc_tb)
        else:
            names = {v[2:] if v.startswith("./") else v for t, v in tv.parse_tv(r.stdout) if t == "FileName"}
            judge(names, "spdx")
        # (c) lint-file <everything>
        everything = [os.path.join(dp, f) for dp, dn, fn in os.walk(root) for f in fn
                      if ".git" not in dp.split(os.sep) and not os.path.islink(os.path.join(dp, f))]
        if everything:
            r = run_cli(gopts + ["lint-file"] + everything, cwd=str(root))
            if r.escaped or r.exit_code == 2:
                res.violation("lint-file-failed", f"lint-file exit {r.exit_code} {r.exc_type}", tb=r.exc_tb, **r.brief())
            else:
                seen = set()
                for line in r.stdout.splitlines():
                    m = re.match(r"^(.*): (no license identifier|no copyright notice|read error|missing license \S+)$", line)
                    if m:
                        seen.add(trees.norm_path(m.group(1), root))
                judge(seen, "lint-file")
        # (b2) spdx -o FILE, twice, on a copy; FILE lies in the project and has no SPDX name: at the second run it is a covered
        # file like any other (it exists and is not empty when the command starts)
        if case["k"] % 3 == 0 and not os.path.lexists(root / "bom.txt"):
            bcopy = root.parent / "bomcopy"
            shutil.copytree(root, bcopy, symlinks=True)
            try:
                g3 = [g if g != str(root) else str(bcopy) for g in gopts]
                for turn in (1, 2):
                    rb = run_cli(g3 + ["spdx", "-o", str(bcopy / "bom.txt")], cwd=str(bcopy))
                if rb.escaped or rb.exit_code != 0 or not (bcopy / "bom.txt").is_file():
                    res.cell("spdx-o-twice:refused")
                else:
                    names = {v[2:] if v.startswith("./") else v for t, v in tv.parse_tv((bcopy / "bom.txt").read_text(encoding="utf-8", errors="replace")) if t == "FileName"}
                    if "bom.txt" not in names and "bom.txt" not in ignored:
                        res.violation("skipped:output-file-of-the-run-before", "spdx -o bom.txt (second run): bom.txt was a covered file when the command "
                                      "started and has no File section", names=sorted(names)[:20])
                    judge(names - {"bom.txt"}, "spdx -o (second run)")
                    res.cell("spdx-o-twice")
            finally:
                shutil.rmtree(bcopy, ignore_errors=True)
        # (c0) lint-file without any file examines nothing at all
        r = run_cli(gopts + ["lint-file"], cwd=str(root))
        res.cell("lint-file:no-arguments")
        if r.escaped or r.exit_code not in (0, 2):
            res.violation("lint-file-without-files", f"lint-file without files: exit {r.exit_code} {r.exc_type}", tb=r.exc_tb, **r.brief())
        elif re.search(r": (no license identifier|no copyright notice|read error|missing license \S+)$", r.stdout, re.M):
            res.violation("lint-file-without-files", "lint-file without files reported files: " + repr(r.stdout[:300]))
        # (c2) the same from a sub directory, files named relative to it, --root spelled relatively as well
        subdirs = sorted({os.path.dirname(p) for p in covered if os.path.dirname(p)})
        if everything and subdirs:
            sd = os.path.join(str(root), rng.choice(subdirs))
            rel_args = [os.path.relpath(p, sd) for p in everything]
            g2 = [g if g != str(root) else os.path.relpath(str(root), sd) for g in gopts]
            r = run_cli(g2 + ["lint-file"] + rel_args, cwd=sd)
            if r.escaped or r.exit_code == 2:
                res.violation("lint-file-failed", f"lint-file from a sub directory: exit {r.exit_code} {r.exc_type}", tb=r.exc_tb, **r.brief())
            else:
                seen = set()
                for line in r.stdout.splitlines():
                    m = re.match(r"^(.*): (no license identifier|no copyright notice|read error|missing license \S+)$", line)
                    if m:
                        pth = m.group(1)
                        pth = pth if os.path.isabs(pth) else os.path.join(sd, pth)
                        seen.add(os.path.relpath(os.path.realpath(pth), os.path.realpath(root)))
                judge(seen, "lint-file (cwd = sub directory)")
        # (d) annotate -r <several directories, some of them excluded ones> on a copy, then annotate -r . (writes: last)
        named = [d for d in ("LICENSES", ".reuse", "subprojects", "src", "docs") + tuple(submods) if os.path.isdir(os.path.join(str(root), d))]
        for sub in ("subprojects/libfoo", "subprojects/libsub", "subprojects/libwrap"):
            if os.path.isdir(os.path.join(str(root), sub)):
                named.append(sub)
        if named and not case["git"] or (named and rng.random() < 0.5):
            copy = root.parent / "copy"
            shutil.copytree(root, copy, symlinks=True)
            pick = rng.sample(named, min(len(named), rng.randint(1, 3)))
            gc = [g if g != str(root) else str(copy) for g in gopts]
            b0 = snapshot(copy)
            r = run_cli(gc + ["annotate", "-c", "Jane", "-l", "MIT", "--fallback-dot-license", "-r"] + [str(copy / d) for d in pick], cwd=str(copy))
            if not (r.escaped or r.exit_code not in (0, 1)):
                a0 = snapshot(copy)
                touched = set()
                for rel in set(b0) | set(a0):
                    if rel.startswith(".git/") or rel == ".git":
                        continue
                    if b0.get(rel) != a0.get(rel) and (a0.get(rel) or ("x",))[0] != "d":
                        touched.add(rel[:-len(".license")] if rel.endswith(".license") and (rel not in b0 or rel[:-8] in covered) else rel)
                below = {c for c in covered if any(c.startswith(d + "/") for d in pick)}
                res.n += 1
                for rel in sorted((touched - below) - grey):
                    res.violation(classify(rel, "examined-though-excluded", reasons), f"annotate -r {pick}: {rel!r} changed but is not a covered file below the named "
                                  f"directories ({reasons.get(rel)})", rel=rel, opts=opts, git=case["git"])
                for rel in sorted(below - touched):
                    res.violation(classify(rel, "skipped", reasons), f"annotate -r {pick}: covered file {rel!r} was not annotated", rel=rel, opts=opts)
                res.cell("annotate-r-named-dirs")
            shutil.rmtree(copy, ignore_errors=True)
        # (d2) annotate -r . (writes: last)
        before = snapshot(root)
        r = run_cli(gopts + ["annotate", "-c", "Jane", "-l", "MIT", "--fallback-dot-license", "-r", "."], cwd=str(root))
        if r.escaped or r.exit_code not in (0, 1):
            res.violation("annotate-failed", f"annotate -r exit {r.exit_code} {r.exc_type}", tb=r.exc_tb, **r.brief())
        else:
            after = snapshot(root)
            touched = set()
            for rel in set(before) | set(after):
                if rel.startswith(".git/") or rel == ".git":
                    continue
                if before.get(rel) != after.get(rel) and (after.get(rel) or ("x",))[0] != "d":
                    touched.add(rel[:-len(".license")] if rel.endswith(".license") and (rel not in before or rel[:-8] in covered) else rel)
            judge(touched, "annotate -r")
        ncov, nexc = len(covered), len([x for x in reasons.values() if x not in ("covered", "grey")])
        if ncov >= 4 and nexc >= 4:
            res.sigs.add(short_hash(sorted(reasons.items()), sorted(opts.items())))
        for why in set(reasons.values()):
            res.cell("reason:" + why)
        res.cell("git" if case["git"] else "novcs")
        res.cell(f"opts:sub={int(opts['submodules'])},meson={int(opts['meson'])}")
        for s in submods:
            res.cell("submodule")
        if k in (0, 81):
            res.sample = {"git": case["git"], "options": opts, "nodes": [(n["path"], n["kind"]) for n in nodes][:25],
                          "covered": sorted(covered)[:15], "excluded": {a: b for a, b in list(reasons.items())[:15] if b != "covered"}}
    finally:
        os.environ.pop("XDG_CONFIG_HOME", None)
        shutil.rmtree(ctx.scratch / f"c03-{k}", ignore_errors=True)
    return res.out()
