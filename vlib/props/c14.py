"""C14 Results do not depend on scheduling, enumeration order or root spelling.

Every tree is linted / turned into an SPDX document by real `reuse` processes under perturbed
configurations (worker count, chunking, injected per-task delays, shuffled directory listings,
PYTHONHASHSEED, working directory, spelling of --root); all normalised outputs of one tree must
equal those of the baseline run.
"""

import json
import os
import re
import shutil
import subprocess

from .. import env, trees
from ..util import Res, rng_for, short_hash

ID = "C14"
LEVEL = "exploration"
RULE = ("per tree: baseline (serial, hash seed 0, cwd = root) + a seeded sample of 24 (quick) / 120 (thorough) configurations from "
        "{serial, pool with 1,2,3,8,16 workers x chunk sizes x injected delays} x 4 directory-order permutations x PYTHONHASHSEED "
        "{0,1,2,3,random} x cwd {root, subdirectory, parent, /} x root spelling {omitted, '.', relative, absolute, x/../x, trailing "
        "slash, through a symlink}, for `lint --json` and `spdx`; trees: REUSE.toml hierarchies, dep5, Git, .license, stacked "
        "comment terminators; non-trivial = run whose configuration differs from the baseline in >= 2 dimensions; distinct = "
        "distinct (tree, configuration)")
ASSUMPTIONS = ["scheduling is perturbed (worker count, chunking, delays), not enumerated: the evidence reports the distinct completion "
               "orders and task->pid assignments actually observed; a dependence that needs a schedule not produced is missed",
               "normaliser: lists sorted, paths mapped to root-relative through realpath, DocumentNamespace and Created dropped"]
MIN_NONTRIVIAL = {"quick": 300, "thorough": 10000}
BATCH_TIMEOUT = {"quick": 1500, "thorough": 5 * 3600}
BATCHES_PER_JOB = 2


def generate(tier, seed):
    nt, nc = (25, 24) if tier == "quick" else (150, 120)
    return [{"k": k, "configs": nc} for k in range(nt)]


def setup(ctx):
    ctx.state["styles"] = trees.style_table()


def norm_rel(p, root_real, cwd):
    # file paths are printed relative to cwd (as --root was spelled), licence paths relative to the root
    if not os.path.isabs(p):
        a = os.path.join(cwd, p)
        p = a if os.path.lexists(a) else os.path.join(root_real, p)
    # only the spelling of the *root* is normalised away (it may be reached through a link); links inside the project are not
    # resolved: which of two names of one file is reported is part of the result
    ap = os.path.normpath(p)
    for r in (root_real, os.path.join(os.path.dirname(root_real), "via_link")):
        if ap == r:
            return "."
        if ap.startswith(r + os.sep):
            return ap[len(r) + 1:]
    return os.path.relpath(os.path.realpath(p), root_real)


def norm_lint(stdout, root_real, cwd):
    d = json.loads(stdout)
    n = lambda p: norm_rel(p, root_real, cwd)  # noqa
    nc = d["non_compliant"]
    out = {
        "files": sorted((f["path"], sorted((c["value"], c["source"], c["source_type"]) for c in f["copyrights"]),
                         sorted((e["value"], e["source"], e["source_type"]) for e in f["spdx_expressions"])) for f in d["files"]),
        "missing": sorted((k, sorted(n(x) for x in v)) for k, v in nc["missing_licenses"].items()),
        "bad": sorted((k, sorted(n(x) for x in v)) for k, v in nc["bad_licenses"].items()),
        "unused": sorted(nc["unused_licenses"]), "deprecated": sorted(nc["deprecated_licenses"]),
        "noext": sorted((k, n(v)) for k, v in nc["licenses_without_extension"].items()),
        "nocop": sorted(n(x) for x in nc["missing_copyright_info"]), "nolic": sorted(n(x) for x in nc["missing_licensing_info"]),
        "readerr": sorted(n(x) for x in nc["read_errors"]),
        "summary": {k: (sorted(v) if isinstance(v, list) else v) for k, v in d["summary"].items()},
        "recommendations": d.get("recommendations"),
    }
    return out


def norm_spdx(stdout):
    lines = []
    for ln in stdout.splitlines():
        if ln.startswith(("DocumentNamespace:", "Created:")):
            continue
        lines.append(ln)
    # sections are sorted by name already; relationships too: compare as multiset of sections to stay independent of that
    text = "\n".join(lines)
    parts = re.split(r"\n\n", text)
    head = parts[0].splitlines()
    return {"head": sorted(head), "sections": sorted(parts[1:])}


def run_reuse(args, cwd, hashseed, perturb, timeout=180):
    e = env.child_env(PYTHONHASHSEED=hashseed, VERIF_PERTURB=perturb or None)
    p = subprocess.run([env.PY, "-m", "vlib.launch", "--"] + args, cwd=cwd, env=e, stdout=subprocess.PIPE, stderr=subprocess.PIPE, timeout=timeout)
    return p


def run_case(case, ctx):
    res = Res()
    k = case["k"]
    rng = rng_for(ctx.seed, "c14", k)
    base = ctx.scratch / f"c14-{k}"
    base.mkdir()
    # the project directory's own name must not matter either (also not when it reads like something the tool knows)
    root = base / ["proj", "proj", "subprojects", "proj", "LICENSES", "sp ace"][k % 6]
    try:
        git = k % 4 == 1
        mode = ["toml", "dep5", "none", "toml"][k % 4]
        recipe = trees.gen_recipe(rng, n_files=rng.randint(8, 22), defects=[rng.choice(trees.DEFECTS[:9]) for _ in range(rng.randint(0, 3))],
                                  global_mode=mode, spicy=(k % 2 == 0), git=git)
        trees.build(recipe, root, ctx.state["styles"])
        # files whose tags end in stacked comment terminators: the place where set order used to leak into a regex
        (root / "stacked1.html").write_text("<!-- /* SPDX-License-Identifier: MIT*/-->\n<!-- SPDX-FileCopyrightText: 2020 Stack One -->\n")
        (root / "stacked2.html").write_text("<!-- /* SPDX-License-Identifier: MIT-->*/\n<!-- SPDX-FileCopyrightText: 2020 Stack Two */ -->\n")
        # one source that holds X and 'X OR Y' (Boolean algebra would absorb Y), a Meson subproject with a file of its own
        (root / "absorb.py").write_text("# SPDX-FileCopyrightText: 2020 Absorb\n# SPDX-License-Identifier: MIT\n# SPDX-License-Identifier: MIT OR Apache-2.0\n"
                                        "# SPDX-License-Identifier: 0BSD AND (0BSD OR ISC)\n")
        # one expression in two spellings (operands swapped): whichever the tool keeps, it keeps the same one in every run
        (root / "twice.py").write_text("# SPDX-FileCopyrightText: 2020 Twice\n# SPDX-License-Identifier: ISC OR Zlib\n# SPDX-License-Identifier: Zlib OR ISC\n"
                                       "# SPDX-License-Identifier: (Zlib OR ISC)\n")
        if mode == "toml":
            (root / "twice_toml.txt").write_text("t\n")
            (root / "twice" ).mkdir(exist_ok=True)
            (root / "twice" / "x.txt").write_text("x\n")
            (root / "twice" / "REUSE.toml").write_text('version = 1\n[[annotations]]\npath = "x.txt"\nSPDX-FileCopyrightText = "2020 T"\n'
                                                      'SPDX-License-Identifier = ["ISC OR Zlib", "Zlib OR ISC", "(Zlib OR ISC)"]\n')
        (root / "subprojects" / "libfoo").mkdir(parents=True, exist_ok=True)
        (root / "subprojects" / "libfoo" / "foo.c").write_text("int foo;\n")
        if mode == "toml":
            # a REUSE.toml that only counts when Meson subprojects are included (every third tree is run with that option, in
            # every run alike: what the option brings in must not depend on who evaluates a file)
            (root / "subprojects" / "libfoo" / "REUSE.toml").write_text('version = 1\n[[annotations]]\npath = "foo.c"\nprecedence = "aggregate"\n'
                                                                        'SPDX-FileCopyrightText = "2003 Sub Project"\nSPDX-License-Identifier = "0BSD"\n')
        (root / "deep" / "er" / "still").mkdir(parents=True)
        (root / "deep" / "REUSE.toml").write_text('version = 1\n[[annotations]]\npath = "**"\nprecedence = "closest"\nSPDX-FileCopyrightText = "2001 Deep"\n') if mode == "toml" else None
        (root / "deep" / "er" / "x.py").write_text("print(1)\n")
        (root / "deep" / "er" / "still" / "y.c").write_text("// SPDX-License-Identifier: 0BSD\nint y;\n")
        if mode != "dep5":
            # files that share one closest annotation, some with half a header: any state kept between files shows up as
            # a dependence on processing order or on how tasks are spread over workers
            mix = root / "mix"
            (mix / "sub").mkdir(parents=True)
            (mix / "REUSE.toml").write_text('version = 1\n[[annotations]]\npath = "**"\nprecedence = "closest"\n'
                                            'SPDX-FileCopyrightText = "2002 Mix Holder"\nSPDX-License-Identifier = "Zlib"\n')
            for name, text in (("a_lic_only.py", "# SPDX-License-Identifier: MIT\nx = 1\n"), ("b_none.py", "x = 2\n"),
                               ("c_cop_only.py", "# SPDX-FileCopyrightText: 2020 Partial\nx = 3\n"), ("d_none.txt", "plain\n"),
                               ("sub/e_none.py", "x = 5\n"), ("sub/f_lic_only.py", "# SPDX-License-Identifier: 0BSD\nx = 6\n"),
                               ("sub/g_cop_only.c", "// SPDX-FileCopyrightText: 2021 Other Partial\nint g;\n"), ("z_none.md", "last\n")):
                (mix / name).write_text(text)
        if k % 5 in (1, 3):
            # a licence text that is a link to the file the project keeps in its root (LICENSES/X.txt -> ../COPYING)
            (root / "LICENSES").mkdir(exist_ok=True)
            (root / "COPYING.ARTISTIC").write_text("artistic text\n")
            os.symlink("../COPYING.ARTISTIC", root / "LICENSES" / "Artistic-2.0.txt")
            (root / "uses_linked_text.py").write_text("# SPDX-FileCopyrightText: 2018 L\n# SPDX-License-Identifier: Artistic-2.0\n")
        linked = k % 5 == 2
        if linked:
            # one licence text reachable under two names through a link inside LICENSES/: whatever the tool makes of that
            # (today: a usage error), it must make the same of it in every run
            (root / "LICENSES" / "texts").mkdir(parents=True, exist_ok=True)
            (root / "LICENSES" / "texts" / "BSL-1.0").write_text("boost text\n")
            (root / "LICENSES" / "texts" / "NotAnId.txt").write_text("text\n")
            os.symlink("texts", root / "LICENSES" / "alias")
        if git:
            # a submodule (manual .gitmodules, as the repository's own tests do): excluded from whichever directory the tool is run
            (root / "vendor" / "lib").mkdir(parents=True)
            (root / "vendor" / "lib" / "lib.c").write_text("int lib;\n")
            # a second submodule right next to the first, an ignored directory between and around them, ignored files
            (root / "vendor" / "lib2").mkdir(parents=True)
            (root / "vendor" / "lib2" / "lib2.c").write_text("int lib2;\n")
            (root / "vendor" / "kept").mkdir(parents=True)
            (root / "vendor" / "kept" / "k.py").write_text("# SPDX-FileCopyrightText: 2020 K\n# SPDX-License-Identifier: 0BSD\n")
            (root / "vendor" / "lib1.5-build").mkdir(parents=True)
            (root / "vendor" / "lib1.5-build" / "o.py").write_text("ignored\n")
            (root / "out.log").write_text("ignored\n")
            (root / ".gitignore").write_text("*.log\n*-build/\n")
            (root / ".gitmodules").write_text('[submodule "vendor/lib"]\n\tpath = vendor/lib\n\turl = https://example.com/lib.git\n'
                                              '[submodule "vendor/lib2"]\n\tpath = vendor/lib2\n\turl = https://example.com/lib2.git\n')
            trees.git(root, "add", "-A", check=False)
            trees.git(root, "commit", "-q", "-m", "init", check=False)
        os.symlink(str(root), base / "via_link")
        sub = "deep/er"
        root_real = os.path.realpath(root)

        def spelling(kind, cwd):
            if kind == "omitted":
                return []
            if kind == "dot":
                return ["--root", "."]
            if kind == "relative":
                return ["--root", os.path.relpath(root, cwd)]
            if kind == "absolute":
                return ["--root", str(root)]
            if kind == "dotdot":
                return ["--root", str(root / "deep" / ".." / "..") + "/" + root.name]
            if kind == "slash":
                return ["--root", str(root) + "/"]
            return ["--root", str(base / "via_link")]

        def one_run(cfg, cmd):
            cwd = {"root": str(root), "sub": str(root / sub), "parent": str(base), "slash": "/", "meson": str(root / "subprojects" / "libfoo")}[cfg["cwd"]]
            gl = spelling(cfg["root"], cwd) + (["--include-meson-subprojects"] if k % 3 == 0 else [])
            if cfg["workers"] == 0:
                gl = ["--no-multiprocessing"] + gl
            perturb = []
            if cfg["walk"]:
                perturb.append(f"walk={cfg['walk']}")
            log = None
            if cfg["workers"]:
                log = str(base / f"tasks-{cfg['id']}-{cmd[0]}.log")
                perturb += [f"workers={cfg['workers']}", f"chunk={cfg['chunk']}", f"delay={cfg['delay']}", f"log={log}"]
            p = run_reuse(gl + cmd, cwd, cfg["hashseed"], ",".join(perturb))
            sched = None
            if log and os.path.exists(log):
                rows = [ln.split("\t") for ln in open(log).read().splitlines()]
                rows = [r for r in rows if len(r) == 4]
                order = tuple(os.path.basename(r[3]) for r in sorted(rows, key=lambda r: float(r[2])))
                pids = {}
                for r in rows:
                    pids.setdefault(r[0], []).append(os.path.basename(r[3]))
                sched = (short_hash(order), short_hash(sorted(map(tuple, pids.values()))), len(pids))
                os.unlink(log)
            return p, cwd, sched

        def valid(cfg):
            # --root omitted: the project is found from cwd (Git) or is cwd itself
            if cfg["root"] == "omitted":
                return cfg["cwd"] == "root" or (git and cfg["cwd"] in ("sub", "meson"))
            if cfg["root"] == "dot":
                return cfg["cwd"] == "root"
            return True

        base_cfg = {"id": 0, "workers": 0, "chunk": 0, "delay": 0, "walk": 0, "hashseed": "0", "cwd": "root", "root": "absolute"}
        reference = {}
        spdx_cmd = ["spdx"] if k % 2 else ["spdx", "--add-license-concluded", "--creator-person", "J Doe"]
        for cmd in (["lint", "--json"], spdx_cmd):
            p, cwd, _ = one_run(base_cfg, cmd)
            if (p.returncode not in (0, 1) and not (linked and p.returncode == 2)) or b"VERIF-ESCAPED" in p.stderr:
                res.violation("baseline-run-failed", f"baseline {' '.join(cmd)} exit {p.returncode}", stderr=p.stderr.decode(errors="replace")[-800:])
                return res.out()
            out = p.stdout.decode("utf-8", "replace")
            if p.returncode == 2:
                reference[cmd[0]] = ({"usage-error": True}, 2)
                continue
            reference[cmd[0]] = (norm_lint(out, root_real, cwd) if cmd[0] == "lint" else norm_spdx(out), p.returncode)
        configs = []
        cid = 0
        while len(configs) < case["configs"]:
            cid += 1
            cfg = {"id": cid, "workers": rng.choice([0, 1, 2, 3, 8, 16]), "chunk": rng.choice([0, 1, 2, 5]), "delay": rng.choice([0, 1, 2, 3]),
                   "walk": rng.choice([0, 1, 2, 3]), "hashseed": rng.choice(["0", "1", "2", "3", "random"]),
                   "cwd": rng.choice(["root", "sub", "parent", "slash", "meson"]),
                   "root": rng.choice(["omitted", "dot", "relative", "absolute", "dotdot", "slash", "symlink"])}
            if valid(cfg):
                configs.append(cfg)
        for cfg in configs:
            cmd = ["lint", "--json"] if rng.random() < 0.65 else spdx_cmd
            try:
                p, cwd, sched = one_run(cfg, cmd)
            except subprocess.TimeoutExpired:
                ctx.count("watchdog")
                continue
            res.n += 1
            desc = {kk: vv for kk, vv in cfg.items() if kk != "id"}
            if p.returncode == 2 and reference[cmd[0]][1] == 2:
                res.cell("usage-error-in-every-run")
                res.sigs.add(short_hash(k, sorted(desc.items()), cmd, "usage"))
                continue
            if b"VERIF-ESCAPED" in p.stderr or p.returncode not in (0, 1):
                res.violation(f"run-failed:{cmd[0]}", f"`{' '.join(cmd)}` exit {p.returncode} under {desc}", stderr=p.stderr.decode(errors="replace")[-900:])
                continue
            out = p.stdout.decode("utf-8", "replace")
            try:
                got = norm_lint(out, root_real, cwd) if cmd[0] == "lint" else norm_spdx(out)
            except ValueError:
                res.violation("output-unparseable", f"{cmd[0]} under {desc}", out=out[:300])
                continue
            ref, ref_rc = reference[cmd[0]]
            if ref_rc == 2:
                res.violation(f"{cmd[0]}-differs:usage-error-only-sometimes", f"`{' '.join(cmd)}` under {desc} exits {p.returncode}, the baseline run was a usage error")
                continue
            if got != ref or p.returncode != ref_rc:
                if cmd[0] == "lint":
                    dims = [kk for kk in ref if got.get(kk) != ref.get(kk)]
                else:
                    dims = ["head" if got["head"] != ref["head"] else "sections"]
                differing = [kk for kk in ("workers", "walk", "hashseed", "cwd", "root") if str(cfg[kk]) != str(base_cfg[kk])]
                key = f"{cmd[0]}-differs:" + (differing[0] if len(differing) == 1 else "multi") + ":" + ",".join(dims[:2])
                detail = {}
                if cmd[0] == "lint" and dims:
                    detail = {"ref": ref[dims[0]], "got": got[dims[0]]}
                else:
                    detail = {"ref": [s for s in ref["sections"] if s not in got["sections"]][:2], "got": [s for s in got["sections"] if s not in ref["sections"]][:2],
                              "head": [h for h in got["head"] if h not in ref["head"]]}
                res.violation(key, f"`{' '.join(cmd)}` under {desc} differs from the baseline in {dims} (exit {p.returncode} vs {ref_rc})", **detail)
                continue
            ndiff = sum(1 for kk in ("workers", "walk", "hashseed", "cwd", "root") if str(cfg[kk]) != str(base_cfg[kk]))
            if ndiff >= 2:
                res.sigs.add(short_hash(k, sorted(desc.items()), cmd))
            res.cell(f"workers:{cfg['workers']}")
            res.cell(f"hashseed:{cfg['hashseed']}")
            res.cell(f"cwd:{cfg['cwd']}")
            res.cell(f"root:{cfg['root']}")
            res.cell(f"walk:{cfg['walk']}")
            if sched:
                res.sigs.add("sched-order:" + sched[0])
                res.sigs.add("sched-assign:" + sched[1])
                res.cell("pool-runs-with-task-log")
                res.cell(f"distinct-worker-pids:{min(sched[2], 16)}")
        if k == 0:
            res.sample = {"tree": {"mode": mode, "git": git, "files": len(recipe["files"])}, "configs": [
                {kk: vv for kk, vv in c.items() if kk != "id"} for c in configs[:4]]}
    finally:
        shutil.rmtree(base, ignore_errors=True)
    return res.out()


def coverage_extra(tier, feats, counters, finish):
    return {"note_on_schedules": "sigs starting with sched-order:/sched-assign: are distinct completion orders / task->pid assignments "
                                 "observed; they are included in distinct_nontrivial"}
