"""C16 Malformed input yields a diagnostic and a defined exit status, never a crash.

Fault enumeration over configuration shapes (key x TOML type, truncation at every byte, byte
flips), hostile covered files (random bytes, NULs, invalid UTF-8, huge lines, FIFOs, injected
EACCES, files vanishing or turning into directories between enumeration and read), hostile
LICENSES/ and templates, crossed with the subcommands.  Monitor: M-exc (anything but SystemExit
leaving main()), exit status, and the diagnostic naming the broken configuration file.
"""

import json
import os
import shutil

from .. import annot, trees
from ..monitors import FS, eacces, run_cli
from ..util import Res, rng_for, short_hash

ID = "C16"
LEVEL = "fault_enumeration"
RULE = ("REUSE.toml: every key in {version, annotations, path, precedence, SPDX-FileCopyrightText, SPDX-License-Identifier} x every "
        "TOML type {string, integer, float, boolean, datetime, array of each, nested array, inline table, table, array of tables, "
        "absent} (complete); a valid REUSE.toml and dep5 truncated at every byte offset and with seeded byte flips; invalid UTF-8; "
        "dep5 + REUSE.toml at the root or only in a subdirectory; well-formed files whose path / Files / notice / expression values are "
        "strings of glob and regex metacharacters (trailing backslashes, unbalanced brackets, ...); covered files of hostile bytes / FIFO / EACCES / vanishing / turning into a directory; LICENSES/ with "
        "non-UTF-8 texts and duplicate identifiers; broken Jinja templates; each crossed with lint (serial and pool), lint-file, "
        "spdx, annotate, convert-dep5, download --all (network refused); non-trivial = input that is not the valid baseline; "
        "distinct = distinct (fault, command)")
ASSUMPTIONS = ["three classes of configuration: valid by construction (must not be rejected), definitely broken (syntax errors, "
               "invalid UTF-8, missing version, scalar where a container is required or container where a scalar is required, "
               "dep5 + REUSE.toml, unparseable expression: exit 2 and the file named), grey (everything else: only no crash and "
               "exit status in {0,1,2})",
               "network faults are not malformed input: download runs against a refused loopback port only to see that it does not crash"]
MIN_NONTRIVIAL = {"quick": 800, "thorough": 20000}

KEYS = ["version", "annotations", "path", "precedence", "SPDX-FileCopyrightText", "SPDX-License-Identifier"]
TYPES = {
    "string": '"text"', "integer": "7", "float": "1.5", "boolean": "true", "datetime": "1979-05-27T07:32:00Z",
    "array-string": '["a.txt", "b.txt"]', "array-integer": "[1, 2]", "array-float": "[1.5]", "array-boolean": "[true]",
    "array-datetime": "[1979-05-27T07:32:00Z]", "array-empty": "[]", "array-nested": '[["a.txt"]]', "array-mixed": '["a.txt", 1]',
    "inline-table": '{ x = "y" }', "array-inline-table": '[{ path = "a.txt" }]',
    "table": None, "array-of-tables": None, "absent": None,
}
SCALAR_TYPES = {"string", "integer", "float", "boolean", "datetime"}
CONTAINER_TYPES = {t for t in TYPES if t.startswith("array") or t in ("inline-table", "table", "array-of-tables")}

VALID_TOML = '''version = 1
SPDX-PackageName = "demo"

[[annotations]]
path = ["a.txt", "sub/**"]
precedence = "aggregate"
SPDX-FileCopyrightText = ["2020 Jane Doe", "2021 John"]
SPDX-License-Identifier = "MIT OR 0BSD"

[[annotations]]
path = "b.txt"
SPDX-FileCopyrightText = "2022 Zoë"
SPDX-License-Identifier = ["MIT", "0BSD"]
'''
VALID_DEP5 = '''Format: https://www.debian.org/doc/packaging-manuals/copyright-format/1.0/
Upstream-Name: demo
Upstream-Contact: Jane Doe <jane@example.com>
Source: https://example.com/demo

Files: a.txt sub/*
Copyright: 2020 Jane Doe
           2021 John
License: MIT or 0BSD

Files: b.txt
Copyright: 2022 Zoe
License: MIT
'''


def base_tree(root):
    root.mkdir(parents=True)
    (root / "a.txt").write_text("content a\n")
    (root / "b.txt").write_text("content b\n")
    (root / "sub").mkdir()
    (root / "sub" / "c.py").write_text("# SPDX-FileCopyrightText: 2020 X\n# SPDX-License-Identifier: MIT\nprint(1)\n")
    (root / "LICENSES").mkdir()
    (root / "LICENSES" / "MIT.txt").write_text("MIT text\n")
    (root / "LICENSES" / "0BSD.txt").write_text("0BSD text\n")


def toml_for(key, typ):
    """-> (text, class) class in valid / broken / grey"""
    v = TYPES[typ]
    top = {"version": "version = 1"}
    ann = {"path": 'path = "a.txt"', "precedence": 'precedence = "aggregate"', "SPDX-FileCopyrightText": 'SPDX-FileCopyrightText = "2020 J"',
           "SPDX-License-Identifier": 'SPDX-License-Identifier = "MIT"'}
    cls = "grey"
    if key in ("version", "annotations"):
        lines_top, tail = [], []
        if key == "version":
            if typ == "absent":
                cls = "broken"
            elif typ == "table":
                tail.append("[version]\nx = 1")
                cls = "broken"
            elif typ == "array-of-tables":
                tail.append("[[version]]\nx = 1")
                cls = "broken"
            else:
                lines_top.append(f"version = {v}")
                cls = "valid" if typ == "integer" else ("broken" if typ in CONTAINER_TYPES or typ in ("string", "float", "datetime") else "grey")
            tail.append("[[annotations]]\n" + "\n".join(ann.values()))
        else:
            lines_top.append("version = 1")
            if typ == "absent":
                cls = "valid"
            elif typ == "table":
                tail.append('[annotations]\npath = "a.txt"')
                cls = "grey"
            elif typ == "array-of-tables":
                tail.append("[[annotations]]\n" + "\n".join(ann.values()))
                cls = "valid"
            else:
                lines_top.append(f"annotations = {v}")
                cls = "broken" if typ in SCALAR_TYPES else ("valid" if typ in ("array-empty", "array-inline-table") else "grey")
        return "\n".join(lines_top) + "\n\n" + "\n\n".join(tail) + "\n", cls
    a = dict(ann)
    sub_tail = ""
    if typ == "absent":
        del a[key]
        cls = "broken" if key == "path" else "valid"
    elif typ in ("table", "array-of-tables"):
        del a[key]
        sub_tail = (f"\n[annotations.{json.dumps(key)}]\nx = 1\n" if typ == "table" else f"\n[[annotations.{json.dumps(key)}]]\nx = 1\n")
        cls = "grey"
    else:
        a[key] = f"{json.dumps(key) if '-' in key else key} = {v}"
        if key == "path":
            cls = "valid" if typ in ("string", "array-string") else "grey"
        elif key == "precedence":
            cls = "grey"
        elif key == "SPDX-FileCopyrightText":
            cls = "valid" if typ in ("string", "array-string", "array-empty") else "grey"
        else:
            cls = "broken" if typ in ("string", "array-string") else "grey"  # "text" / "a.txt" are fine ids; see below
            if typ in ("string", "array-string"):
                cls = "valid"
    return "version = 1\n\n[[annotations]]\n" + "\n".join(a.values()) + "\n" + sub_tail, cls


# syntactically or structurally invalid TOML of every kind tomlkit distinguishes (parse errors, duplicate keys and tables,
# conflicting dotted keys, ...): all definitely broken
BROKEN_TOML = [
    'version = 1\n[[annotations]]\npath = "a.txt"\npath = "b.txt"\n',
    'version = 1\nversion = 2\n',
    'version = 1\n[[annotations]]\npath = { a = 1, a = 2 }\n',
    'version = 1\n[extra]\nx = 1\n[extra]\ny = 2\n',
    'version = 1\nannotations = 1\n[[annotations]]\npath = "a.txt"\n',
    'version = 1\na = 1\na.b = 2\n',
    'version = 1\n[[annotations]]\npath = "a.txt\n',
    'version = 1\n[[annotations]]\npath = "\\q"\n',
    'version = 1\n[[annotations]\npath = "a.txt"\n',
    'version = 1\n[[annotations]]\npath = [ "a.txt", \n',
    'version = 1\n[[annotations]]\nSPDX-FileCopyrightText = 2020-13-45\npath = "a.txt"\n',
    'version = 1\n[[annotations]]\npath = "a.txt"\nSPDX-License-Identifier = "MIT AND"\n',
    'version = 1\n[[annotations]]\npath = "a.txt"\nSPDX-License-Identifier = ["MIT", "(0BSD"]\n',
    'version = 1\n[[annotations]]\n"path" = "a.txt"\npath = "b.txt"\n',
    'version = 1\n[[annotations]]\npath = "a.txt"\nSPDX-License-Identifier = "( )"\n',
    'version = 1\n[[annotations]]\npath = "a.txt"\nSPDX-License-Identifier = ["MIT", "( OR MIT"]\n',
    'version = 1\n[[annotations]]\npath = "a.txt"\nSPDX-License-Identifier = "( AND +"\n',
    '= 1\n',
    'version = 01\n',
    'version = 1\n[a.b]\nc = 1\n[a]\nb = 2\n',
    '\x00version = 1\n',
    # wrong values that are too long to be quoted back in a message (Python refuses to print integers of more than 4300 digits)
    'version = 1\n[[annotations]]\npath = "a.txt"\nprecedence = 0x' + "f" * 5000 + '\n',
    'version = 1\n[[annotations]]\npath = 0x' + "f" * 5000 + '\n',
    'version = 1\n[[annotations]]\npath = "a.txt"\nSPDX-FileCopyrightText = [0o' + "7" * 6000 + ']\n',
    'version = 1\n[[annotations]]\npath = "a.txt"\nprecedence = false\n',
    'version = 1\n[[annotations]]\npath = "a.txt"\nprecedence = ""\n',
    'version = 1\n[[annotations]]\npath = "a.txt"\nprecedence = []\n',
    'version = 1\n[[annotations]]\npath = "a.txt"\nprecedence = 0\n',
]

# .gitmodules is a project file as well: whatever it holds, the commands end with a documented status
BROKEN_GITMODULES = [b'[submodule "x"]\n\tpath =\n\turl = u\n', b'[submodule "x"]\n\tpath\n', b'[submodule "x"]\n\tpath = caf\xe9\n\turl = u\n',
                     b'[submodule "x"]\n\tpath = "two\\nlines"\n', b'[submodule "x"\n', b'\x00\xff garbage', b'[submodule "x"]\n\tpath = ../outside\n',
                     b'[submodule "x"]\n\tpath = /abs/olute\n', b'[submodule "a"]\n\tpath = sub\n[submodule "b"]\n\tpath = sub\n', b'']

BAD_EXPRESSIONS = ["MIT AND OR (", "( )", "( OR MIT", "( AND +", "( ) ) (", "MIT WITH", ")(", "MIT OR OR 0BSD", "( ( )", "()"]

# a single byte that is not UTF-8, in places where the rest of the file stays perfectly well-formed
NOT_UTF8_SPOTS = [("Jane Doe", b"Jan\xe9 Doe"), ("Jane Doe", b"Jane Doe \xff"), ("MIT OR 0BSD", b"MIT OR 0BSD\x80"), ("demo", b"d\xe9mo"),
                  ("version = 1\n", b"version = 1\n# comment with a Latin-1 \xe9\n"), ("a.txt", b"\xe4.txt")]

COMMANDS = ["lint", "lint-pool", "lint-file", "spdx", "annotate", "convert-dep5", "download-all"]


def run_command(cmd, root, target="a.txt"):
    base = ["--root", str(root)]
    if cmd == "lint":
        return run_cli(["--no-multiprocessing"] + base + ["lint", "--json"], cwd=str(root))
    if cmd == "lint-pool":
        return run_cli(base + ["lint", "--json"], cwd=str(root))
    if cmd == "lint-file":
        return run_cli(["--no-multiprocessing"] + base + ["lint-file", str(root / target)], cwd=str(root))
    if cmd == "spdx":
        return run_cli(["--no-multiprocessing"] + base + ["spdx"], cwd=str(root))
    if cmd == "annotate":
        return run_cli(["--no-multiprocessing"] + base + ["annotate", "-c", "J", "-l", "MIT", "--fallback-dot-license", str(root / target)], cwd=str(root))
    if cmd == "convert-dep5":
        return run_cli(["--no-multiprocessing"] + base + ["convert-dep5"], cwd=str(root))
    if cmd == "download-all":
        return run_cli(["--no-multiprocessing"] + base + ["download", "--all"], cwd=str(root))
    raise ValueError(cmd)


def judge(res, r, cls, fault, cmd, names=("REUSE.toml",), allowed=(0, 1, 2), detail=None):
    res.n += 1
    if r.escaped:
        frame = ""
        if r.exc_tb:
            for line in r.exc_tb.splitlines():
                if "/reuse/" in line and "File" in line:
                    frame = line.strip().split("/reuse/")[-1]
        key = f"crash:{r.exc_type}:{frame.split(',')[0]}"
        if fault.startswith("template:") and cmd == "annotate" and r.exc_tb and "jinja2" in r.exc_tb:
            key = "crash-on-broken-jinja-template"
        res.violation(key, f"{cmd}: {r.exc_type} left main() on {fault}", tb=r.exc_tb, detail=detail)
        return False
    if r.exit_code not in allowed:
        res.violation(f"exit-status:{cmd}", f"{cmd}: exit status {r.exit_code} on {fault}", detail=detail, **r.brief())
        return False
    if cls == "broken":
        if r.exit_code != 2:
            res.violation(f"broken-config-accepted:{fault.split(':')[0]}", f"{cmd}: definitely broken configuration ({fault}) gave exit {r.exit_code}",
                          detail=detail, **r.brief())
            return False
        msg = r.stdout + r.stderr
        if not any(n in msg for n in names):
            res.violation("diagnostic-does-not-name-file", f"{cmd}: exit 2 on {fault} but the message does not name {names}", detail=detail, **r.brief())
            return False
    if cls == "valid" and r.exit_code == 2:
        res.violation(f"valid-config-rejected:{fault.split(':')[0]}", f"{cmd}: valid configuration ({fault}) rejected", detail=detail, **r.brief())
        return False
    return True


def generate(tier, seed):
    cases = []
    for key in KEYS:
        for typ in TYPES:
            cases.append({"kind": "toml-type", "key": key, "typ": typ})
    step = 3 if tier == "quick" else 1
    for off in range(0, len(VALID_TOML.encode()), step):
        cases.append({"kind": "toml-trunc", "off": off})
    for off in range(0, len(VALID_DEP5.encode()), step):
        cases.append({"kind": "dep5-trunc", "off": off})
    for j in range(len(BROKEN_TOML)):
        cases.append({"kind": "toml-broken", "j": j})
    for j in range(3):
        cases.append({"kind": "special-file", "j": j})
    for j in range(len(BROKEN_GITMODULES)):
        cases.append({"kind": "gitmodules", "j": j})
    nflip = 120 if tier == "quick" else 30000
    for k in range(nflip):
        cases.append({"kind": "flip", "k": k})
    nfiles = 180 if tier == "quick" else 6000
    for k in range(nfiles):
        cases.append({"kind": "files", "k": k})
    for k in range(1, 13 if tier == "quick" else 41):
        for cmd in ("lint", "lint-file", "spdx", "lint-pool"):
            cases.append({"kind": "touch-vanish", "k": k, "cmd": cmd, "dir": k % 3 == 0})
    for k in range(1, 9 if tier == "quick" else 25):
        for cmd in ("lint", "spdx", "lint-pool", "lint-pool"):
            cases.append({"kind": "config-vanish", "k": k, "cmd": cmd, "which": ("dep5", "toml")[k % 2]})
    for k in range(12 if tier == "quick" else 200):
        cases.append({"kind": "licenses", "k": k})
    for k in range(8 if tier == "quick" else 100):
        cases.append({"kind": "templates", "k": k})
    for n in (2, 3, 5, 17, 256, 257) if tier == "quick" else (2, 3, 4, 5, 8, 17, 64, 255, 256, 257, 512, 513):
        for how in ("named", "recursive"):
            cases.append({"kind": "batch", "n": n, "how": how})
    cases.append({"kind": "names", "k": 0})
    for how in ("dep5-is-a-directory", "toml-eacces", "toml-vanishes", "nested-toml-eacces", "dep5-eacces"):
        cases.append({"kind": "config-io", "how": how})
    for j in range(len(NOT_UTF8_SPOTS)):
        for where in ("REUSE.toml", "sub/REUSE.toml", "dep5"):
            cases.append({"kind": "not-utf8", "j": j, "where": where})
    for j in range(len(BAD_EXPRESSIONS)):
        cases.append({"kind": "cli-expression", "j": j})
    for layout in range(4):
        cases.append({"kind": "conflict", "layout": layout})
    for k in range(200 if tier == "quick" else 6000):
        cases.append({"kind": "values", "k": k})
    return cases


def setup(ctx):
    FS.install()
    import reuse.download as dl

    # a refused loopback port: download must report the failure, not crash
    dl._SPDX_REPOSITORY_BASE_URL = "http://127.0.0.1:9/"


def run_case(case, ctx):
    res = Res()
    kind = case["kind"]
    root = ctx.scratch / ("c16-" + short_hash(json.dumps(case, sort_keys=True)))
    try:
        base_tree(root)
        if kind == "toml-type":
            text, cls = toml_for(case["key"], case["typ"])
            (root / "REUSE.toml").write_text(text)
            fault = f"{case['key']}={case['typ']}"
            for cmd in ("lint", "lint-file", "spdx", "annotate"):
                judge(res, run_command(cmd, root), cls, fault, cmd, detail=text)
                res.sigs.add(short_hash(fault, cmd))
            res.cell("class:" + cls)
            if case["key"] == "annotations" and case["typ"] == "integer":
                res.sample = {"fault": fault, "class": cls, "REUSE.toml": text}
        elif kind == "toml-broken":
            text = BROKEN_TOML[case["j"]]
            where = ["REUSE.toml", "sub/REUSE.toml"][case["j"] % 2]
            (root / where).write_text(text)
            fault = f"broken-toml:{case['j']}"
            for cmd in ("lint", "lint-file", "spdx", "annotate", "download-all", "convert-dep5"):
                # the diagnostic must name *that* file: a nested REUSE.toml by its own path
                judge(res, run_command(cmd, root), "broken", fault, cmd, names=(where,), detail=text)
                res.sigs.add(short_hash(fault, cmd))
            res.cell("broken-toml")
        elif kind == "special-file":
            # a FIFO among the project's files, the command run as users run it (worker pool on): a read error, exit status 1 -
            # and the command ends.  The watchdog is two minutes for a run that takes a second; it is the deciding observation
            # here because "terminates" is what the statement says.
            import subprocess

            from .. import env

            os.mkfifo(root / "pipe.py")
            for j2 in range(6):
                (root / f"plain{j2}.py").write_text("# SPDX-FileCopyrightText: 2020 J\n# SPDX-License-Identifier: MIT\n")
            argv = [["lint"], ["lint", "--json"], ["lint-file", str(root / "pipe.py"), str(root / "plain0.py")]][case["j"]]
            try:
                p = subprocess.run([env.PY, "-m", "vlib.launch", "--", "--root", str(root)] + argv, cwd=str(root), env=env.child_env(),
                                   stdout=subprocess.PIPE, stderr=subprocess.PIPE, timeout=120)
            except subprocess.TimeoutExpired:
                res.violation("command-does-not-terminate:special-file-with-worker-pool", f"`reuse {' '.join(argv[:2])}` on a project holding a FIFO "
                              "was still running after 120 s (worker pool on)")
                p = None
            res.n += 1
            if p is not None:
                if b"VERIF-ESCAPED" in p.stderr or b"Traceback" in p.stderr or p.returncode not in (0, 1):
                    res.violation("crash:special-file", f"`reuse {' '.join(argv[:2])}` exit {p.returncode} on a project holding a FIFO",
                                  stderr=p.stderr.decode(errors="replace")[-600:])
                res.sigs.add(short_hash("special-file", case["j"]))
            res.cell("special-file:fifo-with-pool")
        elif kind == "gitmodules":
            trees.git_init(root)
            (root / ".gitmodules").write_bytes(BROKEN_GITMODULES[case["j"]])
            (root / "sub").mkdir(exist_ok=True)
            (root / "sub" / "inner.py").write_text("x = 1\n")
            fault = f"gitmodules:{case['j']}"
            for cmd in ("lint", "lint-pool", "lint-file", "spdx", "annotate"):
                judge(res, run_command(cmd, root), "grey", fault, cmd, allowed=(0, 1, 2))
                res.sigs.add(short_hash(fault, cmd))
            res.cell("broken-gitmodules")
        elif kind in ("toml-trunc", "dep5-trunc"):
            data = (VALID_TOML if kind == "toml-trunc" else VALID_DEP5).encode()[:case["off"]]
            if kind == "toml-trunc":
                (root / "REUSE.toml").write_bytes(data)
                names = ("REUSE.toml",)
            else:
                (root / ".reuse").mkdir()
                (root / ".reuse" / "dep5").write_bytes(data)
                names = ("dep5",)
            fault = f"{kind}@{case['off']}"
            cmds = ["lint"] + (["convert-dep5"] if kind == "dep5-trunc" else ["lint-file"])
            for cmd in cmds:
                r = run_command(cmd, root)
                ok = judge(res, r, "grey", fault, cmd, names)
                if ok and r.exit_code == 2 and not any(n in r.stdout + r.stderr for n in names):
                    res.violation("diagnostic-does-not-name-file", f"{cmd}: exit 2 on {fault} but the message does not name {names}", **r.brief())
                res.sigs.add(short_hash(fault, cmd))
        elif kind == "flip":
            rng = rng_for(ctx.seed, "c16flip", case["k"])
            which = rng.choice(["toml", "dep5"])
            data = bytearray((VALID_TOML if which == "toml" else VALID_DEP5).encode())
            for _ in range(rng.randint(1, 3)):
                i = rng.randrange(len(data))
                data[i] = rng.choice([0, 0xFF, 0x80, ord('"'), ord("["), ord("\n"), ord("="), rng.randrange(256)])
            if which == "toml":
                (root / "REUSE.toml").write_bytes(bytes(data))
                names = ("REUSE.toml",)
            else:
                (root / ".reuse").mkdir()
                (root / ".reuse" / "dep5").write_bytes(bytes(data))
                names = ("dep5",)
            try:
                bytes(data).decode("utf-8")
                cls = "grey"
            except UnicodeDecodeError:
                cls = "broken"
            fault = f"flip-{which}:{case['k']}"
            for cmd in ("lint", "spdx"):
                judge(res, run_command(cmd, root), cls, fault, cmd, names, detail=bytes(data).decode("utf-8", "replace")[:400])
                res.sigs.add(short_hash(fault, cmd))
            res.cell("flip-class:" + cls)
        elif kind == "touch-vanish":
            # crash-point enumeration: the covered file disappears right after the K-th time the tool looks at it
            from ..monitors import TouchFault

            victim = root / "sub" / "victim.py"
            victim.write_text("# SPDX-License-Identifier: MIT\n# SPDX-FileCopyrightText: 2020 V\n")
            with TouchFault(victim, case["k"], becomes_dir=case["dir"]) as tf:
                r = run_command(case["cmd"], root, target="sub/victim.py")
            fault = f"file vanishes after touch {case['k']}" + (" (becomes a directory)" if case["dir"] else "")
            judge(res, r, "grey", fault, case["cmd"], allowed=(0, 1) if case["cmd"] != "lint-file" else (0, 1, 2))
            if tf.fired:
                res.sigs.add(short_hash("touch", case["k"], case["cmd"], case["dir"]))
                res.cell("touch-fault-fired")
            else:
                res.cell("touch-fault-not-reached")
        elif kind == "config-vanish":
            # the configuration file itself disappears right after the K-th time the tool looks at it (a checkout switching
            # branches under a running lint): whoever reads it again later - a pool worker - finds nothing, and says so or copes
            from ..monitors import TouchFault

            if case["which"] == "dep5":
                (root / ".reuse").mkdir(exist_ok=True)
                victim = root / ".reuse" / "dep5"
                victim.write_text(VALID_DEP5)
            else:
                victim = root / "REUSE.toml"
                victim.write_text(VALID_TOML)
            for j in range(12):
                (root / f"cv{j}.txt").write_text("no information of its own\n")
            with TouchFault(victim, case["k"]) as tf:
                r = run_command(case["cmd"], root)
            fault = f"{case['which']} vanishes after touch {case['k']}"
            judge(res, r, "grey", fault, case["cmd"], allowed=(0, 1, 2))
            res.cell("config-vanish:" + ("fired" if tf.fired else "not-reached"))
            if tf.fired:
                res.sigs.add(short_hash("config-vanish", case["k"], case["cmd"], case["which"]))
        elif kind == "files":
            run_files(case, ctx, res, root)
        elif kind == "licenses":
            run_licenses(case, ctx, res, root)
        elif kind == "templates":
            run_templates(case, ctx, res, root)
        elif kind == "values":
            run_values(case, ctx, res, root)
        elif kind == "cli-expression":
            # an unparseable expression on the command line is a usage error, in a dep5 a configuration error - never a traceback
            bad = BAD_EXPRESSIONS[case["j"]]
            r = run_cli(["--no-multiprocessing", "--root", str(root), "annotate", "-c", "J", "-l", bad, str(root / "a.txt")], cwd=str(root))
            judge(res, r, "grey", f"--license {bad!r}", "annotate", allowed=(2,))
            (root / ".reuse").mkdir()
            (root / ".reuse" / "dep5").write_text(VALID_DEP5.split("\n\n")[0] + f"\n\nFiles: *\nCopyright: 2020 J\nLicense: {bad}\n")
            for cmd in ("lint", "spdx", "lint-file", "convert-dep5"):
                judge(res, run_command(cmd, root), "grey", f"dep5 License: {bad!r}", cmd, names=("dep5",))
                res.sigs.add(short_hash("cli-expression", bad, cmd))
            res.cell("cli-expression")
        elif kind == "not-utf8":
            old_s, new_b = NOT_UTF8_SPOTS[case["j"]]
            where = case["where"]
            if where == "dep5":
                src = VALID_DEP5.replace("Upstream-Name: demo", "Upstream-Name: demo\nComment: version = 1")
                if old_s == "version = 1\n":
                    old_s, new_b = "Comment: version = 1", b"Comment: caf\xe9"
                (root / ".reuse").mkdir()
                target, names = root / ".reuse" / "dep5", ("dep5",)
            else:
                src = VALID_TOML
                target, names = root / where, (where,)
            if old_s not in src:
                res.cell("not-utf8:spot-absent")
                return res.out()
            data = src.encode("utf-8").replace(old_s.encode("utf-8"), new_b, 1)
            target.write_bytes(data)
            fault = f"not-utf8:{case['j']}:{where}"
            for cmd in ("lint", "lint-file", "spdx", "annotate", "download-all", "convert-dep5"):
                judge(res, run_command(cmd, root), "broken", fault, cmd, names=names, detail=data.decode("utf-8", "replace")[:300])
                res.sigs.add(short_hash(fault, cmd))
            res.cell("not-utf8")
        elif kind == "config-io":
            # the configuration file is there but cannot be read (I/O fault at load time): a configuration error like any other
            how = case["how"]
            hook, on_open, names = {}, None, ("REUSE.toml",)
            if how == "dep5-is-a-directory":
                (root / ".reuse" / "dep5").mkdir(parents=True)
                names = ("dep5",)
            elif how == "toml-is-a-directory":
                (root / "REUSE.toml").mkdir()
            elif how == "dep5-eacces":
                (root / ".reuse").mkdir()
                (root / ".reuse" / "dep5").write_text(VALID_DEP5)
                hook[str(root / ".reuse" / "dep5")] = eacces
                names = ("dep5",)
            else:
                target = root / ("sub/REUSE.toml" if how.startswith("nested") else "REUSE.toml")
                target.write_text(VALID_TOML if not how.startswith("nested") else 'version = 1\n[[annotations]]\npath = "*.py"\nSPDX-License-Identifier = "MIT"\n')
                names = (os.path.relpath(target, root),)
                if how.endswith("eacces"):
                    hook[str(target)] = eacces
            for cmd in ("lint", "lint-file", "spdx", "annotate", "download-all", "convert-dep5"):
                state = {"done": False}
                if how == "toml-vanishes":
                    (root / "REUSE.toml").write_text(VALID_TOML)
                    tpath = str(root / "REUSE.toml")

                    def cb(path, is_write, tpath=tpath, state=state):
                        if path == tpath and not state["done"] and not is_write:
                            state["done"] = True
                            try:
                                os.unlink(tpath)
                            except OSError:
                                pass
                    FS.on_open = cb
                FS.fail_open = dict(hook)
                FS.begin()
                try:
                    r = run_command(cmd, root)
                finally:
                    FS.end()
                    FS.on_open = None
                    FS.fail_open = {}
                allowed = (2,) if not (cmd == "convert-dep5" and "toml" in how and how != "toml-is-a-directory") else (0, 1, 2)
                judge(res, r, "broken" if allowed == (2,) else "grey", f"config-io:{how}", cmd, names=names, allowed=allowed)
                res.sigs.add(short_hash("config-io", how, cmd))
            res.cell("config-io:" + how)
        elif kind == "names":
            # file *names* that are not UTF-8 (Latin-1 bytes from an old archive), ignored by Git
            k = case["k"]
            rb = os.fsencode(str(root))
            if k % 2 == 0:
                trees.git_init(root)
                (root / ".gitignore").write_text("*.gen.py\nout/\n")
                open(rb + b"/caf\xe9.gen.py", "wb").write(b"x = 1\n")
                os.mkdir(rb + b"/out")
                open(rb + b"/out/na\xefve.txt", "wb").write(b"y\n")
            # (covered files with such names are not generated: the statement is about what files contain; the tool cannot
            # even print their names on a strict UTF-8 stdout - noted in DESIGN.md)
            fault = "names-not-utf8:git-ignored"
            for cmd in ("lint", "lint-pool", "spdx", "annotate", "download-all"):
                r = run_command(cmd, root) if cmd != "annotate" else \
                    run_cli(["--no-multiprocessing", "--root", str(root), "annotate", "-c", "J", "-l", "MIT", "--fallback-dot-license", "-r", str(root)], cwd=str(root))
                judge(res, r, "grey", fault, cmd, allowed=(0, 1))
                res.sigs.add(short_hash(fault, cmd))
            if k % 2 == 0 and os.path.exists(rb + b"/caf\xe9.gen.py") and open(rb + b"/caf\xe9.gen.py", "rb").read() != b"x = 1\n":
                res.violation("ignored-file-with-odd-name-annotated", "annotate -r changed a Git-ignored file whose name is not UTF-8")
            res.cell("names:" + fault)
        elif kind == "batch":
            # many unreadable files in one invocation: the status stays the documented one however many fail
            d = root / "batch"
            d.mkdir()
            body = b"".join(b"value_%d = %d\n" % (i, i) for i in range(12))
            for i in range(case["n"]):
                (d / f"latin{i}.py").write_bytes(b"# caf\xe9 cr\xe8me\n" + body)
            (d / "fine.py").write_text("print(1)\n")
            tail = ["-r", str(d)] if case["how"] == "recursive" else [str(p) for p in sorted(d.iterdir())]
            r = run_cli(["--no-multiprocessing", "--root", str(root), "annotate", "-c", "J", "-l", "MIT"] + tail, cwd=str(root))
            fault = f"batch of {case['n']} undecodable files"
            if judge(res, r, "grey", fault, "annotate", allowed=(1,)):
                res.sigs.add(short_hash("batch", case["n"], case["how"]))
            r = run_cli(["--no-multiprocessing", "--root", str(root), "lint-file"] + [str(p) for p in sorted(d.iterdir())], cwd=str(root))
            judge(res, r, "grey", fault, "lint-file", allowed=(0, 1))
            res.cell("batch")
        else:
            # the two formats exclude each other wherever in the project the REUSE.toml sits
            where = ["REUSE.toml", "sub/REUSE.toml", "sub/deep/er/REUSE.toml", "b dir/REUSE.toml"][case.get("layout", 0)]
            (root / ".reuse").mkdir()
            (root / ".reuse" / "dep5").write_text(VALID_DEP5)
            (root / where).parent.mkdir(parents=True, exist_ok=True)
            (root / where).write_text(VALID_TOML if where == "REUSE.toml" else 'version = 1\n\n[[annotations]]\npath = "*.py"\n'
                                      'SPDX-FileCopyrightText = "2020 N"\nSPDX-License-Identifier = "MIT"\n')
            for cmd in ("lint", "lint-file", "spdx", "annotate", "convert-dep5"):
                judge(res, run_command(cmd, root), "broken", f"dep5+{where}", cmd, ("REUSE.toml", "dep5"))
                res.sigs.add(short_hash("conflict", where, cmd))
            res.cell("conflict:" + where)
    finally:
        FS.fail_open = {}
        FS.on_open = None
        FS.active = False
        shutil.rmtree(root, ignore_errors=True)
    return res.out()


ODD_VALUES = ["docs\\", "docs\\\\", "\\", "a\\b\\", "[", "]", "[a-", "(", ")", "a(b", "{1,", "a|b", "^a$", "+", "?", "a?b", "***", "**/**", "/**", "**/",
              "*\\", "\\*", "\\**", "\\\\*", "*/", "/", "//", "./a.txt", "../x", "", " ", "a b", "é", "\u0000", "\n", "a\nb", "\\Z", "\\d+", "(?i)a",
              "(?P<n>a)", "a{2}", "[[:alpha:]]", "\\1", "%s", "{0}", "$HOME", "~"]
ALPHABET = ["\\", "*", "?", "[", "]", "(", ")", "{", "}", ".", "/", "a", "b", "^", "$", "|", "+", " ", "-", "é", "\n"]


def odd_value(rng):
    if rng.random() < 0.5:
        return rng.choice(ODD_VALUES)
    return "".join(rng.choice(ALPHABET) for _ in range(rng.randint(1, 7)))


def run_values(case, ctx, res, root):
    """Well-formed configuration files whose *values* are strange strings: nothing here may crash (class grey)."""
    rng = rng_for(ctx.seed, "c16values", case["k"])
    which = ["toml-path", "toml-path-array", "toml-other", "dep5-files", "dep5-other"][case["k"] % 5]
    vals = [odd_value(rng) for _ in range(rng.randint(1, 3))]
    if which.startswith("toml"):
        path = json.dumps(vals[0], ensure_ascii=False) if which == "toml-path" else json.dumps(["a.txt"] + vals, ensure_ascii=False)
        cop, lic = '"2020 J"', '"MIT"'
        if which == "toml-other":
            path = '"a.txt"'
            cop = json.dumps(vals[0], ensure_ascii=False)
            lic = json.dumps(rng.choice(["MIT", vals[-1], "MIT AND " + vals[-1]]), ensure_ascii=False)
        text = f"version = 1\n\n[[annotations]]\npath = {path}\nSPDX-FileCopyrightText = {cop}\nSPDX-License-Identifier = {lic}\n"
        where = rng.choice(["REUSE.toml", "REUSE.toml", "sub/REUSE.toml"])
        (root / where).write_text(text)
        names = (where,)
    else:
        files = "a.txt" if which == "dep5-other" else " ".join(v.replace("\n", " ") or "x" for v in vals)
        cop = "2020 J" if which == "dep5-files" else (vals[0].replace("\n", " ").strip() or "x")
        lic = "MIT" if which == "dep5-files" else rng.choice(["MIT", vals[-1].replace("\n", " ").strip() or "x"])
        text = VALID_DEP5.split("\n\n")[0] + f"\n\nFiles: {files}\nCopyright: {cop}\nLicense: {lic}\n"
        (root / ".reuse").mkdir()
        (root / ".reuse" / "dep5").write_text(text)
        names = ("dep5",)
    fault = f"values:{which}"
    for cmd in ("lint", "lint-file", "spdx", "annotate", "convert-dep5"):
        r = run_command(cmd, root)
        ok = judge(res, r, "grey", fault, cmd, names, detail=text)
        if ok and r.exit_code == 2 and cmd != "convert-dep5" and not any(n in r.stdout + r.stderr for n in names):
            res.violation("diagnostic-does-not-name-file", f"{cmd}: exit 2 on {fault} but the message does not name {names}", detail=text, **r.brief())
        res.sigs.add(short_hash(fault, vals, cmd))
        if which.startswith("dep5") and cmd == "convert-dep5" and r.exit_code == 0:
            # what conversion wrote must itself load
            r2 = run_command("lint", root)
            judge(res, r2, "grey", fault + ":after-conversion", "lint", ("REUSE.toml",), detail=text)
            break
    res.cell("values:" + which)


HOSTILE_CONTENT = ["random", "nuls", "invalid-utf8-text", "huge-line", "fifo", "eacces", "vanish", "becomes-dir", "utf16", "lone-surrogates",
                   "binary-with-tags", "only-cr", "unparseable-expression", "ignore-start-only", "nul-in-tag"]


def run_files(case, ctx, res, root):
    rng = rng_for(ctx.seed, "c16files", case["k"])
    what = HOSTILE_CONTENT[case["k"] % len(HOSTILE_CONTENT)]
    vname = ["victim.txt", "victim", "Makefile", ".hidden", "victim.py", "victim.unknownext9"][(case["k"] // len(HOSTILE_CONTENT)) % 6]
    victim = root / vname
    hook_paths = {}
    if what == "random":
        victim.write_bytes(bytes(rng.randrange(256) for _ in range(rng.randint(1, 3000))))
    elif what == "nuls":
        victim.write_bytes(b"# SPDX-License-Identifier: MIT\n" + b"\x00" * 50 + b"\ntext\n")
    elif what == "invalid-utf8-text":
        victim.write_bytes(b"# SPDX-FileCopyrightText: 2020 J\xff\xfe\xfaane\n# SPDX-License-Identifier: MIT\ncode \xc3\x28 here\n")
    elif what == "huge-line":
        victim.write_bytes(b"# SPDX-License-Identifier: MIT " + b"x" * (1 << 20) + b"\n")
    elif what == "fifo":
        os.mkfifo(victim)
    elif what == "eacces":
        victim.write_text("# SPDX-License-Identifier: MIT\n")
        hook_paths[str(victim)] = eacces
    elif what in ("vanish", "becomes-dir"):
        victim.write_text("# SPDX-License-Identifier: MIT\n")
    elif what == "utf16":
        victim.write_bytes("# SPDX-License-Identifier: MIT\n".encode("utf-16"))
    elif what == "lone-surrogates":
        victim.write_bytes(b"# SPDX-FileCopyrightText: 2020 \xed\xa0\x80 J\n")
    elif what == "binary-with-tags":
        victim.write_bytes(trees.BINARY_BLOB + b"\nSPDX-License-Identifier: MIT AND OR\n")
    elif what == "only-cr":
        victim.write_bytes(b"# SPDX-License-Identifier: MIT\r# SPDX-FileCopyrightText: 2020 J\r")
    elif what == "unparseable-expression":
        bad = ["MIT AND OR (", "( )", "( OR MIT", "( AND +", "( ) ) (", "MIT WITH", ")(", "MIT OR OR 0BSD", "+"][(case["k"] // len(HOSTILE_CONTENT)) % 9]
        victim.write_text(f"# SPDX-License-Identifier: {bad}\n# SPDX-FileCopyrightText: 2020 J\n")
    elif what == "ignore-start-only":
        victim.write_text("REUSE-IgnoreStart\n# SPDX-License-Identifier: MIT\n")
    elif what == "nul-in-tag":
        victim.write_bytes(b"# SPDX-License-Identifier: M\x00IT\n")
    for cmd in ("lint", "lint-pool", "lint-file", "spdx", "annotate"):
        if what == "fifo" and cmd in ("annotate",):
            continue  # opening a FIFO for reading blocks for ever; annotate on a FIFO is not a "covered file" question
        state = {"done": False}
        if what in ("vanish", "becomes-dir"):
            victim_s = str(victim)
            if os.path.isdir(victim_s):
                shutil.rmtree(victim_s)
            victim.write_text("# SPDX-License-Identifier: MIT\n")

            def cb(path, is_write, victim_s=victim_s, state=state, what=what):
                if path == victim_s and not state["done"] and not is_write:
                    state["done"] = True
                    try:
                        os.unlink(victim_s)
                        if what == "becomes-dir":
                            os.mkdir(victim_s)
                    except OSError:
                        pass
            FS.on_open = cb
        FS.fail_open = dict(hook_paths)
        FS.begin()
        try:
            r = run_command(cmd, root, target=vname)
        finally:
            FS.end()
            FS.on_open = None
            FS.fail_open = {}
        fault = f"file:{what}"
        allowed = (0, 1) if cmd not in ("annotate", "lint-file") else (0, 1, 2)
        ok = judge(res, r, "grey", fault, cmd, allowed=allowed)
        if ok and cmd in ("lint", "lint-pool") and what in ("eacces", "fifo"):
            try:
                data = json.loads(r.stdout)
                rerr = [os.path.basename(p) for p in data["non_compliant"]["read_errors"]]
                if vname not in rerr:
                    res.violation("unreadable-file-not-reported", f"{cmd}: {what}: victim not among read errors {rerr}")
            except ValueError:
                res.violation("lint-json-unparseable", f"{cmd} on {fault}: no JSON", **r.brief())
        res.sigs.add(short_hash(fault, cmd, case["k"]))
        res.cell("file-fault:" + what)
    if os.path.isdir(str(victim)):
        shutil.rmtree(str(victim))


def run_licenses(case, ctx, res, root):
    k = case["k"] % 6
    lic = root / "LICENSES"
    if k == 0:
        (lic / "LicenseRef-bin.txt").write_bytes(b"licence \xff\xfe text \x80\n")
        (root / "a.txt").write_text("SPDX-License-Identifier: LicenseRef-bin\nSPDX-FileCopyrightText: 2020 J\n")
        fault = "licenseref-text-not-utf8"
    elif k == 1:
        (lic / "sub").mkdir()
        (lic / "sub" / "MIT.txt").write_text("again\n")
        fault = "duplicate-identifier"
    elif k == 2:
        (lic / "MIT.md").write_text("again\n")
        fault = "duplicate-identifier-other-extension"
    elif k == 3:
        (lic / "MIT.txt").write_bytes(b"\xff\xfe\x00")
        fault = "spdx-text-not-utf8"
    elif k == 4:
        os.symlink("does-not-exist", lic / "Dangling.txt")
        os.mkdir(lic / "GPL-3.0-or-later.txt")
        fault = "dangling-link-and-directory-named-like-text"
    else:
        (lic / "LicenseRef-ok.txt").write_text("x </text> y\n")
        (lic / "weird name .txt").write_text("x\n")
        (lic / ".hidden").write_text("x\n")
        fault = "odd-names"
    for cmd in ("lint", "spdx", "lint-file", "annotate", "download-all"):
        r = run_command(cmd, root)
        judge(res, r, "grey", "licenses:" + fault, cmd)
        res.sigs.add(short_hash(fault, cmd))
    res.cell("licenses-fault:" + fault)


BROKEN_TEMPLATES = ["{% for x in %}", "{{ copyright_lines | nosuchfilter }}", "{% if %}", "{{ 1/0 }}", "{% include 'missing.jinja2' %}",
                    "{{ undefined_name.attr }}", "\x00\x01", "{% for c in copyright_lines %}{{ c }}"]


def run_templates(case, ctx, res, root):
    t = BROKEN_TEMPLATES[case["k"] % len(BROKEN_TEMPLATES)]
    d = root / ".reuse" / "templates"
    d.mkdir(parents=True)
    (d / "broken.jinja2").write_text(t)
    (root / "t.py").write_text("print(1)\n")
    before = (root / "t.py").read_bytes()
    r = run_cli(["--no-multiprocessing", "--root", str(root), "annotate", "-c", "J", "-l", "MIT", "--template", "broken", str(root / "t.py")], cwd=str(root))
    ok = judge(res, r, "grey", f"template:{t!r}", "annotate")
    if ok and r.exit_code != 0 and (root / "t.py").read_bytes() != before:
        res.violation("broken-template-changed-file", f"template {t!r}: exit {r.exit_code} but the file changed")
    res.sigs.add(short_hash("template", t))
    res.cell("template-fault")
