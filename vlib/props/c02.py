"""C02 Licence, copyright and contributor tags are read exactly, in any comment syntax.

The generator composes every line from labelled parts (open + tag + separator + VALUE + close +
trailing blanks + EOL) and therefore knows the authored values.  Observed: the real
decoded_text_from_binary -> extract_reuse_info pipeline, and `reuse lint --json` on files.
"""

import io
import json
import shutil

from .. import trees
from ..monitors import run_cli
from ..util import Res, rng_for, short_hash

ID = "C02"
LEVEL = "exploration"
RULE = ("texts of 1-4 tagged lines: tag kind (licence, SPDX-FileCopyrightText, SPDX-SnippetCopyrightText, Copyright, Copyright (C), "
        "Copyright ©, ©, contributor) x every style class of reuse.comment x form (single-line, inline multi-line, block "
        "multi-line with middle marker, ASCII-art frame, XML attribute, '[v] ::') x indentation x trailing blanks x EOL (LF, CRLF, CR) "
        "x value class; every (style, form, tag, EOL) cell enumerated, the rest sampled; on disk: position before / after the "
        "4096-byte window with and without a snippet marker, unparseable expressions; non-trivial = decorated line (not a bare "
        "tag); distinct = distinct texts")
ASSUMPTIONS = ["licence values are drawn in the canonical rendering of license_expression (own printer), so string equality is meaningful",
               "grey (not generated): a tag straddling byte 4096, bare '(C)' without 'Copyright', two tags on one line, holders "
               "containing 'Copyright' / '(c)' / a terminator in the middle, blank-separated stacked terminators"]
MIN_NONTRIVIAL = {"quick": 8000, "thorough": 300000}

TAGS = {
    "lic": "SPDX-License-Identifier:",
    "cop-spdx": "SPDX-FileCopyrightText:",
    "cop-snippet": "SPDX-SnippetCopyrightText:",
    "cop-string": "Copyright",
    "cop-string-c": "Copyright (C)",
    "cop-string-sym": "Copyright ©",
    "cop-sym": "©",
    "cop-spdx-c": "SPDX-FileCopyrightText: (C)",
    "cop-spdx-string": "SPDX-FileCopyrightText: Copyright",
    "cop-spdx-string-sym": "SPDX-FileCopyrightText: Copyright ©",
    "con": "SPDX-FileContributor:",
}
FORMS = ["single", "inline", "block", "frame", "xml", "bracket"]
EOLS = {"LF": "\n", "CRLF": "\r\n", "CR": "\r", "CRLF+CR": "\r\n"}   # the last: a CRLF file in which the tag lines end in a lone CR
LIC_VALUES = ["MIT", "GPL-3.0-or-later", "Apache-2.0+", "GPL-2.0-or-later WITH Classpath-exception-2.0", "MIT OR Apache-2.0",
              "MIT AND (0BSD OR ISC)", "LicenseRef-custom-1.0", "(MIT OR X11) AND LicenseRef-a.b", "CC-BY-SA-4.0 AND MIT AND 0BSD",
              # identifiers are case-sensitive: what the author wrote is what is read, also when it is not the SPDX spelling
              "mit", "Gpl-3.0-Or-Later", "bsd-3-clause AND mit", "apache-2.0 WITH llvm-exception"]
HOLDERS = ["Jane Doe", "Jane Doe <jane@example.com>", "Example Corp. <https://example.com>", "Zoë Müller-Lüdenscheidt", "ACME, Inc.",
           "The X Project Authors (see AUTHORS)", "Free Software Foundation Europe e.V.", "O'Neil & Sons", "名前 太郎", "a/b/c team",
           "Jane \"JD\" Doe", "Team [core]", "Ünïcode GmbH & Co. KG", "Rene\u0301 Mu\u0308ller", "\u212bngstro\u0308m Lab"]
YEARS = ["", "2020 ", "1999-2024 ", "2001 - 2003 ", "2020, "]
CONTRIBS = ["Jane Doe", "John Smith <john@example.org>", "Team Rocket", "Zoë", "Someone, PhD", "Rene\u0301 Mu\u0308ller"]


def frames_for(st):
    """(open, close) pairs of a style for every form it supports."""
    out = {}
    if st["single"]:
        out["single"] = (st["single"] + st["indent_single"], "")
    s, m, e = st["multi"]
    if s and e:
        out["inline"] = (s + " ", " " + e)
        out["block"] = ((st["ibm"] + m + st["iam"]) if m else "", "")
    return out


def build_line(rng, form, opn, cls, tagkey, value, indent, trail, pad):
    tag = TAGS[tagkey]
    sep = " " if rng.random() < 0.8 else rng.choice(["  ", "\t"])
    body = tag + sep + value
    if form == "frame":
        line = "|*" + pad + body + pad + "*|"
    elif form == "xml":
        q = rng.choice(['"', "'"])
        line = f"<meta content={q}{body}{q}{rng.choice(['/>', ' />', '>'])}"
    elif form == "bracket":
        line = f"[{body}]{rng.choice([' ::', '::', '  ::'])}"
    else:
        line = opn + body + cls
    return indent + line + trail, body


def expect_of(tagkey, value, body):
    if tagkey == "lic":
        return ("lic", value)
    if tagkey == "con":
        return ("con", value)
    return ("cop", body)


def make_text(rng, styles, style, form, tagkey, eolname, hostile=None):
    """-> (bytes, expected dict of sets, description)"""
    st = styles[style]
    fr = frames_for(st)
    eol = EOLS[eolname]
    lines = []
    exp = {"lic": set(), "cop": set(), "con": set()}
    if form in ("single", "inline", "block") and form not in fr:
        return None
    opn, cls = fr.get(form, ("", ""))
    n_tags = rng.randint(1, 3)
    kinds = [tagkey] + [rng.choice(list(TAGS)) for _ in range(n_tags - 1)]
    if form == "block":
        lines.append(st["multi"][0])
    if form == "frame":
        lines.append("/*" + "*" * 30 + "\\")
    filler_opn = opn if form in ("single", "block") else ""
    for j, tk in enumerate(kinds):
        if tk == "lic":
            value = rng.choice(LIC_VALUES)
        elif tk == "con":
            value = rng.choice(CONTRIBS)
        else:
            value = rng.choice(YEARS) + rng.choice(HOLDERS)
            if tk in ("cop-string", "cop-sym") and value[:1].isdigit() is False and rng.random() < 0.3:
                value = "2021 " + value
        mirror = None
        if hostile == "mirror-tail" and j == 0 and form in ("single", "block") and opn.strip() and tk != "lic":
            mirror = opn.strip()[::-1]
            value = value + " " + mirror
        indent = rng.choice(["", "", "  ", "\t", "    "])
        trail = rng.choice(["", "", " ", "  ", "\t"])
        pad = rng.choice([" ", "  "])
        if hostile == "stacked" and j == 0:
            # two terminators directly stacked after the value (e.g. JS inside HTML)
            ends = sorted({s["multi"][2] for s in styles.values() if s["multi"][2]})
            e1, e2 = rng.sample(ends, 2)
            gap = rng.choice(["", "", " ", "  ", "\t"])  # nested comment syntaxes: `*/ -->`, `*/ #}` ...
            line, body = build_line(rng, "single", "", rng.choice(["", " "]) + e1 + gap + e2, tk, value, indent, trail, pad)
        else:
            line, body = build_line(rng, form, opn, cls, tk, value, indent, trail, pad)
        lines.append(line)
        k, v = expect_of(tk, value, body)
        exp[k].add(v)
        if rng.random() < 0.4:
            lines.append((indent + filler_opn + "some explanatory words").rstrip() if rng.random() < 0.7 else "")
    if form == "block":
        lines.append(st["ibe"] + st["multi"][2])
    if form == "frame":
        lines.append("\\" + "*" * 30 + "*/")
    lines.append("code = 1")
    if eolname == "CRLF+CR":
        text = "".join(ln + ("\r" if any(m in ln for m in ("SPDX-", "Copyright", "©")) else "\r\n") for ln in lines)
    else:
        text = eol.join(lines) + (eol if rng.random() < 0.8 else "")
    return text.encode("utf-8"), exp, {"style": style, "form": form, "tag": tagkey, "eol": eolname, "hostile": hostile,
                                       "mirror": opn.strip()[::-1] if hostile == "mirror-tail" else None}


def classify(desc, kind, got, want, data):
    """Mechanism key of a mismatch.  The two listed findings are recognised by the exact shape of the witness."""
    if got is not None and want is not None:
        extra, missing = got - want, want - got
        if desc["form"] == "frame" and kind == "cop" and extra and all(g.endswith("*|") for g in extra):
            stripped = {g[:-2].rstrip() for g in extra}
            # (a value may be authored twice in one text, once framed and once not: then nothing is "missing")
            if stripped <= want and missing <= stripped:
                return "frame-suffix-kept-in-copyright"
        if desc["hostile"] == "mirror-tail" and kind == "con" and missing and desc.get("mirror"):
            m = desc["mirror"]
            shortened = {w[: -len(m)].rstrip() for w in missing if w.endswith(m)}
            if len(shortened) == len(missing) and shortened <= got and extra <= shortened:
                return "mirrored-prefix-strip-eats-value-tail"
    if desc["eol"] == "CR":
        return f"CR:{kind}:{desc['form']}"
    if desc["hostile"] == "stacked":
        return "stacked-terminators"
    return f"{kind}:{desc['form']}:{desc['style']}"


def observe(ex, data):
    try:
        info = ex.extract_reuse_info(ex.decoded_text_from_binary(io.BytesIO(data)))
    except Exception as e:  # noqa
        return {"raised": type(e).__name__}
    return {"lic": {str(x) for x in info.spdx_expressions}, "cop": set(info.copyright_lines), "con": set(info.contributor_lines)}


def generate(tier, seed):
    cases = []
    n_enum_rounds = 1 if tier == "quick" else 150
    for r in range(n_enum_rounds):
        for fi, form in enumerate(FORMS):
            cases.append({"kind": "enum", "form": form, "round": r})
    n_rand = 40 if tier == "quick" else 6000
    for k in range(n_rand):
        cases.append({"kind": "rand", "k": k, "n": 500})
    for k in range(48 if tier == "quick" else 1500):
        cases.append({"kind": "disk", "k": k})
    return cases


def setup(ctx):
    import reuse.extract as ex

    ctx.state["ex"] = ex
    ctx.state["styles"] = trees.style_table()


def check_one(res, ex, made):
    data, exp, desc = made
    res.n += 1
    got = observe(ex, data)
    if "raised" in got:
        k = classify(desc, "raise", None, None, data)
        if k.startswith("raise:"):
            k = f"raises:{desc['form']}:{desc['style']}"
        res.violation(k, f"extract raised {got['raised']} on a text of valid tags ({desc})", text=data.decode("utf-8", "replace"), desc=desc)
        return
    for kind in ("lic", "cop", "con"):
        if got[kind] != exp[kind]:
            res.violation(classify(desc, kind, got[kind], exp[kind], data),
                          f"{kind} values read {sorted(got[kind])} but authored {sorted(exp[kind])} ({desc})",
                          text=data.decode("utf-8", "replace"), desc=desc)
            return
    if desc["form"] != "single" or desc["style"] != "python":
        res.sigs.add(short_hash(data))
    res.cell(f"form:{desc['form']}")
    res.cell(f"eol:{desc['eol']}")
    res.cell(f"tag:{desc['tag']}")


def run_case(case, ctx):
    res = Res()
    ex, styles = ctx.state["ex"], ctx.state["styles"]
    if case["kind"] == "enum":
        rng = rng_for(ctx.seed, "c02enum", case["form"], case["round"])
        form = case["form"]
        for style in sorted(styles):
            for tagkey in TAGS:
                for eolname in EOLS:
                    made = make_text(rng, styles, style, form, tagkey, eolname)
                    if made is None:
                        continue
                    check_one(res, ex, made)
                    res.cell(f"cell:{style}/{form}")
        if case["round"] == 0:
            m = make_text(rng, styles, "c", form, "cop-spdx", "LF")
            if m:
                res.sample = {"form": form, "text": m[0].decode(), "expected": trees.jsonable(m[1])}
    elif case["kind"] == "rand":
        rng = rng_for(ctx.seed, "c02rand", case["k"])
        names = sorted(styles)
        for _ in range(case["n"]):
            hostile = rng.choice([None] * 8 + ["mirror-tail", "stacked"])
            made = make_text(rng, styles, rng.choice(names), rng.choice(FORMS), rng.choice(list(TAGS)), rng.choice(list(EOLS)), hostile)
            if made is None:
                continue
            check_one(res, ex, made)
            if hostile:
                res.cell("hostile:" + hostile)
    else:
        run_disk(case, ctx, res)
    return res.out()


def run_disk(case, ctx, res):
    """Files on disk through `reuse lint --json`: 4 KiB window, snippet marker, unparseable expressions, EOLs."""
    rng = rng_for(ctx.seed, "c02disk", case["k"])
    styles = ctx.state["styles"]
    root = ctx.scratch / f"c02-{case['k']}"
    root.mkdir()
    expected = {}
    try:
        for j in range(40):
            style = rng.choice(sorted(styles))
            form = rng.choice(["single", "inline", "block"])
            made = make_text(rng, styles, style, form, rng.choice(list(TAGS)), rng.choice(["LF", "CRLF", "CR", "CRLF+CR"]))
            if made is None:
                continue
            data, exp, desc = made
            eol = EOLS[desc["eol"]].encode()
            pos = rng.choice(["start", "inside", "after", "after+snippet", "unparseable", "start+snippet", "after+snippet@boundary",
                              "after+snippet@boundary", "inside-edge", "after-edge", "start+long", "start+long", "straddle+snippet", "straddle+snippet", "start+char-across-window-end", "inside-edge+1", "after-last-snippet-end"])
            desc = dict(desc, pos=pos)
            filler_line = b"x = 'filler filler filler filler filler filler filler'" + eol
            if pos == "start":
                blob = data
            elif pos == "inside":
                blob = filler_line * rng.randint(1, 40) + data  # < 4096 - len(data)
                if len(blob) > 4000:
                    blob = data
            elif pos == "after":
                blob = filler_line * 90 + data  # tag wholly after byte 4096
                exp = {"lic": set(), "cop": set(), "con": set()}
            elif pos == "after+snippet":
                blob = b"# SPDX-SnippetBegin" + eol + filler_line * 90 + data + b"# SPDX-SnippetEnd" + eol
            elif pos == "after-last-snippet-end":
                # a file with a (closed) snippet near its top is read as a whole: also what follows the last SnippetEnd, far down
                blob = b"# SPDX-SnippetBegin" + eol + filler_line * 2 + b"# SPDX-SnippetEnd" + eol + filler_line * 90 + data
            elif pos in ("inside-edge", "after-edge", "inside-edge+1"):
                # the tagged text ends exactly with byte 4095 (wholly inside the window) / starts exactly at byte 4096 (wholly after) /
                # ends one byte later: its very last byte - the LF of a CRLF, say - falls outside, the CR is the window's last byte
                want = 4096 - len(data) if pos == "inside-edge" else 4096
                if pos == "inside-edge+1":
                    # ... such that the CR of a CRLF that ends a *tag line* is the last byte of the window and its LF the first
                    # byte outside; tags further down are then outside as well, so only single-tag texts are placed like this
                    # or, for every convention: the tag line's last character is the window's last byte and its whole line
                    # ending lies outside
                    want = -1
                    off = 0
                    whole_eol_outside = rng.random() < 0.5 or eol != b"\r\n"
                    for ln in data.split(eol):
                        if any(m in ln for m in (b"SPDX-", b"Copyright", "©".encode())):
                            want = (4096 if whole_eol_outside else 4095) - (off + len(ln))
                            break
                        off += len(ln) + len(eol)
                    ntags = len(made[1]["lic"]) + len(made[1]["cop"]) + len(made[1]["con"])
                    if ntags != 1 or eol not in data or desc["eol"] == "CRLF+CR":
                        want = -1
                if want < len(eol) + 1:
                    blob = data
                    pos = "start"
                    desc = dict(desc, pos=pos)
                else:
                    lead = filler_line * (want // len(filler_line))
                    rest = want - len(lead)
                    if 0 < rest < len(eol) + 1:
                        lead = lead[: -len(filler_line)]
                        rest = want - len(lead)
                    if rest:
                        lead += b"#" + b"q" * (rest - len(eol) - 1) + eol
                    blob = lead + data
                    assert len(lead) == want
                    if pos == "after-edge":
                        exp = {"lic": set(), "cop": set(), "con": set()}
            elif pos == "after+snippet@boundary":
                # the marker straddles a typical buffer boundary (multiples of 512 .. 64 KiB): it is in the file all the same
                block = rng.choice([4096, 4096, 4096, 8192, 1024, 512, 2048, 16384, 65536, 128 * 64])
                mult = rng.randint(1, 3)
                cut = rng.randint(1, 16)
                lead = filler_line * 90
                target = max(block * mult - cut, len(lead) + 2)
                while target < len(lead) + 2:
                    target += block
                pad_len = target - len(lead) - 2
                blob = lead + b"#" + b"p" * max(0, pad_len - len(eol)) + eol + b"# SPDX-SnippetBegin" + eol + data + b"# SPDX-SnippetEnd" + eol
                # recompute so that the marker really starts `cut` bytes before the boundary
                idx = blob.find(b"SPDX-SnippetBegin")
                desc = dict(desc, marker_offset=idx)
            elif pos == "straddle+snippet":
                # a file that is read in full (snippet marker); the tagged lines lie across byte 4096, so that whatever is
                # there - also a multi-byte character - must come through unharmed
                head = b"# SPDX-SnippetBegin" + eol
                d = rng.randint(1, max(1, len(data) - 1))
                want = 4096 - d - len(head)
                lead = filler_line * (want // len(filler_line))
                rest = want - len(lead)
                if 0 < rest < len(eol) + 1:
                    lead = lead[: -len(filler_line)]
                    rest = want - len(lead)
                if rest:
                    lead += b"#" + b"q" * (rest - len(eol) - 1) + eol
                blob = head + lead + data + b"# SPDX-SnippetEnd" + eol
            elif pos == "start+char-across-window-end":
                # no snippet marker: only the first 4096 bytes are looked at, and that cut falls inside a multi-byte character of
                # the body; the tags at the top, non-ASCII values included, are read all the same
                ch = rng.choice(["é", "名", "😀", "ß", "€"]).encode("utf-8")
                d = rng.randint(1, len(ch) - 1)
                want = 4096 - d - len(data)
                if want < 8:
                    blob = data
                else:
                    lead = filler_line * (want // len(filler_line))
                    rest = want - len(lead)
                    lead += b"#" + b"q" * (rest - 1) if rest else b""
                    blob = data + lead + ch + b" tail" + eol + filler_line * 20
                    assert blob[4096 - d:4096 - d + len(ch)] == ch
            elif pos == "start+long":
                blob = data + filler_line * 120  # tags at the top of a file much longer than the window
            elif pos == "start+snippet":
                blob = data + filler_line * 90 + b"# SPDX-SnippetBegin" + eol + b"# SPDX-SnippetEnd" + eol
            else:
                blob = data + b"# SPDX-License-Identifier: MIT AND OR" + eol
                exp = {"lic": set(), "cop": set(), "con": set()}
            name = f"f{j}.dat"
            (root / name).write_bytes(blob)
            expected[name] = (exp, desc, blob)
        # binary files with the same extension, met before and between the text files: what is found out about one file says
        # nothing about the next
        from .. import trees as _trees

        for bn in ("a0.dat", "f2a.dat", "sub0/a.dat"):
            (root / bn).parent.mkdir(exist_ok=True)
            (root / bn).write_bytes(_trees.BINARY_BLOB)
        r = run_cli(["--no-multiprocessing", "--root", str(root), "lint", "--json"], cwd=str(root))
        if r.escaped:
            res.violation("escaped-exception", f"{r.exc_type} left main()", tb=r.exc_tb)
            return
        try:
            data = json.loads(r.stdout)
        except ValueError:
            res.violation("lint-gives-no-report", f"lint --json exit {r.exit_code} without a report", **r.brief())
            return
        by = {f["path"]: f for f in data["files"]}
        for name, (exp, desc, blob) in expected.items():
            res.n += 1
            f = by.get(name)
            if f is None:
                res.violation("file-not-reported", f"{name} missing from lint --json", desc=desc)
                continue
            got_l = {x["value"] for x in f["spdx_expressions"]}
            got_c = {x["value"] for x in f["copyrights"]}
            if got_l != exp["lic"] or got_c != exp["cop"]:
                key = classify(desc, "cop", got_c, exp["cop"], blob) if got_c != exp["cop"] else classify(desc, "lic", got_l, exp["lic"], blob)
                if desc["pos"] in ("after", "after+snippet", "after+snippet@boundary", "start+snippet", "unparseable", "inside-edge", "after-edge", "straddle+snippet") and not key.startswith(("lone-CR", "frame", "mirrored")):
                    key = f"window:{desc['pos']}"
                res.violation(key, f"lint --json reads licences {sorted(got_l)} copyrights {sorted(got_c)}; authored {sorted(exp['lic'])} / {sorted(exp['cop'])} ({desc})",
                              desc=desc, head=blob[:300].decode("utf-8", "replace"))
            else:
                res.sigs.add(short_hash(blob))
            res.cell("pos:" + desc["pos"])
    finally:
        shutil.rmtree(root, ignore_errors=True)
